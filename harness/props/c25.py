"""C25 — exported ground programs keep the original semantics.

(a) DIMACS: for the CNF of every generated program, `cnf.to_dimacs()` must equal the text of the Lean model
    (`Clark.toDimacs`, exact) and read back (Lean `Export.readDimacs`, theorem C25_dimacs_roundtrip; and an independent
    Python reader) as the announced number of variables and exactly the internal clause list; also with `names=True`
    (comment lines).
(b) ProbLog text: the ground program written as the ground task writes it (`LogicFormula` = no cycle breaking,
    `LogicDAG` = with cycle breaking; label_all, avoid_name_clash, keep_order) is re-parsed and re-evaluated by real
    ProbLog and compared with the Lean specification `Sem` of the ORIGINAL program (semcheck.compare)."""
import re

import spine
import semcheck
import mpe_util as mu
import kbest_util as ku
from lib import pmap

MODULE = "ProbLogProofs.Properties.C25"
THEOREMS = [
    "ProbLogProofs.C25.C25_dimacs_roundtrip",
    "ProbLogProofs.C25.C25_dimacs_models",
]
REFUTATIONS = ["ProbLogProofs.C25.C25_dimacs_zero_literal_refuted"]

MANIFEST = {
    "level": "proof",
    "technique": "Lean 4 round-trip theorem for the DIMACS writer model and a DIMACS reader (character level, core String "
                 "lemmas) + exact correspondence of the writer model with CNF.to_dimacs on generated CNFs; the ProbLog-text "
                 "export (to_prolog) is validated by re-evaluation against the Lean specification Sem of the original program",
    "text": "Theorem C25_dimacs_roundtrip: readDimacs (toDimacs c) = (c.atomcount, c.clauses) for every CNF without literal 0 "
            "(so the exported CNF has exactly the internal models). Every run: to_dimacs() text = model text on every "
            "generated CNF, re-read clauses = internal clauses (Lean reader and an independent Python reader); "
            "LogicFormula/LogicDAG.to_prolog() re-parsed and re-evaluated by real ProbLog vs Sem of the original program.",
    "note": "Level 'proof' applies to the DIMACS half; to_prolog/enum_clauses/extract_ads/get_body are not modelled: that "
            "half is translation validation per generated program (re-evaluation vs Sem). Trusted: Lean kernel + standard "
            "axioms; harness; the instantiation spine.reference for Sem.",
    "design_ref": "DESIGN.md §6 C25, §9",
}

GROUND_KW = dict(label_all=True, avoid_name_clash=True, keep_order=True, keep_all=False, keep_duplicates=False,
                 hide_builtins=False, propagate_evidence=False, propagate_weights=None, args=None)


def py_read_dimacs(text):
    """Independent DIMACS reader."""
    nv, cls = None, []
    cur = []
    for line in text.split("\n"):
        t = line.split()
        if not t or t[0] == "c":
            continue
        if t[0] == "p":
            nv = int(t[2])
            continue
        for x in t:
            k = int(x)
            if k == 0:
                cls.append(cur)
                cur = []
            else:
                cur.append(k)
    return nv, cls


def text_features(text):
    """Predicates called but not defined in an exported program, and duplicated probabilistic clauses."""
    from problog.program import PrologString
    from problog.logic import Clause, AnnotatedDisjunction, Term, Not, And, Or
    defined, called, lines = set(), set(), {}
    out = dict(undefined_internal=False, undefined_user=False, parse_error=False, dup_prob_clause=False)
    try:
        stmts = list(PrologString(text))
    except Exception:
        out["parse_error"] = True
        return out

    def lits(b):
        if isinstance(b, (And, Or)):
            return lits(b.op1) + lits(b.op2)
        if isinstance(b, Not):
            return lits(b.child)
        return [b]
    for st in stmts:
        if isinstance(st, Clause):
            heads, body = [st.head], st.body
        elif isinstance(st, AnnotatedDisjunction):
            heads, body = list(st.heads), st.body
        elif isinstance(st, Or):
            heads, body = lits(st), None
        else:
            heads, body = [st], None
        if len(heads) == 1 and heads[0].functor in ("query", "evidence") and body is None:
            continue
        for h in heads:
            defined.add((h.functor, h.arity))
        if body is not None:
            for l in lits(body):
                called.add((l.functor, l.arity))
        if any(h.probability is not None for h in heads):
            k = str(st)
            lines[k] = lines.get(k, 0) + 1
    for fn, ar in called - defined:
        if re.match(r"(body_\d+|choice|node_\d+|aux_.*|problog_cv_.*)$", fn):
            out["undefined_internal"] = True
        elif fn not in ("true", "fail", "false"):
            out["undefined_user"] = True
    out["dup_prob_clause"] = any(v > 1 for v in lines.values())
    heads_prob = set(k.split("::", 1)[1].split(" :- ")[0] for k in lines if "::" in k)
    out["annotated_and_choice"] = any(re.search(r"(?m)^%s :- .*choice\(" % re.escape(h), text) for h in heads_prob)
    return out


def formula_features(gp):
    names = {}
    for i, n, t in gp:
        if n.name is not None:
            names.setdefault(str(n.name), set()).add(i)
    bykey = {}
    for n, k, l in gp.get_names_with_label():
        if k is not None and k != 0:
            bykey.setdefault(abs(k), set()).add(str(n).lstrip("\\+"))
    return dict(aux_clash=any(k.startswith("aux_") and len(v) > 1 for k, v in names.items()),
                shared_node=any(len(v) > 1 for v in bykey.values()))


def export_and_rerun(src, target_name, timeout=20):
    """-> (export status, text, run, features) : the text written by the ground task and its re-evaluation."""
    from problog.program import PrologString, ExtendedPrologFactory
    from problog.parser import DefaultPrologParser
    from problog.formula import LogicFormula, LogicDAG
    target = {"LogicFormula": LogicFormula, "LogicDAG": LogicDAG}[target_name]
    feats = {}

    def body():
        gp = target.createFrom(PrologString(src, parser=DefaultPrologParser(ExtendedPrologFactory())), **GROUND_KW)
        feats.update(formula_features(gp))
        return gp.to_prolog()
    try:
        text = spine.with_timeout(timeout, body)
    except spine.Timeout:
        return ("error", ("export", "Timeout", "")), None, None, feats
    except Exception as e:
        return ("error", ("export", type(e).__name__, mu.site_of(e))), None, None, feats
    feats.update(text_features(text))
    feats["bad_identifier"] = bool(re.search(r"problog_cv_aux_-", text))
    return ("ok", None), text, semcheck.run_cfg(text, {}, timeout=timeout), feats


def work(src):
    res = dict(src=src, exports={}, dimacs=None, orig=None)
    res["orig"] = semcheck.run_cfg(src, {}, timeout=6)
    if res["orig"][0] == "error" and res["orig"][1][1] == "Timeout":
        return res
    for tn in ("LogicFormula", "LogicDAG"):
        res["exports"][tn] = export_and_rerun(src, tn, timeout=6)

    def mk_cnf():
        from problog.program import PrologString
        from problog.formula import LogicFormula, LogicDAG
        from problog.cnf_formula import CNF
        return CNF.create_from(LogicDAG.create_from(LogicFormula.create_from(PrologString(src))))
    try:
        cnf = spine.with_timeout(6, mk_cnf)
    except Exception:
        cnf = None
    if cnf is not None:
        internal = [list(c) for c in cnf._contents()[1]]
        res["dimacs"] = dict(atomcount=cnf.atomcount, clauses=internal, text=cnf.to_dimacs(), text_names=None, names_exc=None)
        try:
            res["dimacs"]["text_names"] = cnf.to_dimacs(names=True)
        except Exception as e:
            res["dimacs"]["names_exc"] = (type(e).__name__, mu.site_of(e))
    return res


def run(ctx):
    ctx.rule = ("typed random programs of the C01 fragment (with evidence in half of them); a case = one program x "
                "{DIMACS, to_prolog without / with cycle breaking}; distinct = distinct source; non-trivial = CNF with at "
                "least one clause / exported program with at least one rule")
    ctx.proof_phase(MODULE, THEOREMS, refutations=REFUTATIONS)
    drv = ctx.driver("Drivers.C25")
    sem_drv = ctx.driver("Drivers.Spine")
    if drv is None or sem_drv is None:
        return ctx.finish("proof")
    rng = ctx.sub_rng("programs")
    nprog = ctx.budget(90, 4000)
    if ctx.replay_in:
        import json
        progs = [ku.load_program(json.load(open(ctx.replay_in))["replay"]["program"])]
    else:
        progs = [spine.gen_program(rng) for _ in range(nprog)]
        # witnesses of the defects found by probing (DESIGN §9) are always exercised
        progs.append(dict(consts=["a", "b"], preds={"f0": (1, 0), "p0": (0, 1)},
                          stmts=[("pf", spine.F(3, 10), ("f0", ("a",))), ("rule", ("p0", ()), [("pos", ("f0", ("b",)))]),
                                 ("fact", ("f0", ("c",)))],
                          queries=[("f0", ("a",)), ("p0", ())], evidence=[(("p0", ()), False)]))
        progs.append(dict(consts=["a", "b"], preds={"h0": (1, 0), "h1": (1, 0), "p0": (1, 1)},
                          stmts=[("ad", [(spine.F(1, 10), ("h0", ("a",))), (spine.F(2, 10), ("h1", ("a",)))], []),
                                 ("rule", ("p0", ("X",)), [("pos", ("h0", ("X",)))])],
                          queries=[("p0", ("_",)), ("h1", ("a",)), ("h0", ("_",))], evidence=[]))
    import time
    t0 = time.time()
    sems = semcheck.spec_batch(sem_drv, progs)
    t1 = time.time()
    results = pmap(work, [spine.to_src(P) for P in progs], chunksize=2)
    ctx.notes.append("timing: spec %.1fs, implementation runs %.1fs" % (t1 - t0, time.time() - t1))
    lines, meta = [], []
    nfail = 0
    for P, sem, r in zip(progs, sems, results):
        src = r["src"]
        if sem is None or sem["undef"] > 0:
            ctx.count("skipped:no-exact-value")
            continue
        if r["orig"][0] == "error" and r["orig"][1][1] == "Timeout":
            ctx.count("skipped:timeout")
            continue
        ctx.programs += 1
        # the original program must itself agree with Sem (otherwise the difference is not the export's: C01's business)
        orig_bad = semcheck.compare(P, sem, r["orig"], "original")
        if orig_bad:
            ctx.count("skipped:original-differs-from-spec")
            continue
        for tn, (est, text, rerun, feats) in r["exports"].items():
            tag = "to_prolog[%s]" % tn
            if est[0] == "error":
                stage, name, site = est[1]
                if name == "Timeout":
                    ctx.count("timeout")
                    continue
                if r["orig"][0] == "error" and r["orig"][1][1] == name:
                    ctx.count("grounding-error-as-original")
                    continue
                xs = dict(kind="export-exception", exc=name, site=site)
                if name == "NegativeCycle":
                    # the export grounds the program with its own options; a false NegativeCycle there is the engine's
                    # known finding F1 when the program has its shape and the specification sees no negative cycle
                    xs["export_spec_negcycle"] = bool(sem["negcycle"])
                    xs["export_f1_shape"] = bool(spine.f1_condition(P))
                fails = [("%s: %s raised at %s" % (tag, name, site), xs)]
            else:
                ctx.case(src + "|" + tn, nontrivial=":-" in (text or ""))
                ctx.count(tn)
                fails = semcheck.compare(P, sem, rerun, tag, ctx)
                if fails and (fails[0][1].get("kind") == "wrong-probability" or
                              fails[0][1].get("exc") in ("NegativeCycle", "AssertionError")):
                    # is it the exported text, or real ProbLog's evaluation of a correct text? (Sem of the exported text)
                    ts = ku.ground_text_to_sem(text)
                    if ts is not None:
                        o = sem_drv.run([ts[0]])[0]
                        if not o.startswith("toobig") and not o.startswith("bad-op"):
                            pe = spine.parse_sem(o, [(q, ()) for q in ts[1]])
                            same = pe["undef"] == 0 and ((pe["z"] == 0) == (sem["z"] == 0)) and (sem["z"] == 0 or all(
                                (pe["probs"].get(k) or 0) == v for k, v in sem["probs"].items()))
                            if same:
                                ctx.count("exported-text-correct-but-misevaluated:" + fails[0][1].get("kind"))
                                fails = []
            has_prob_rule = any(s_[0] == "prule" or (s_[0] == "ad" and s_[2]) for s_ in P["stmts"])
            for w, s in fails:
                for k_ in ("tag", "spec_negcycle", "f1_shape"):
                    s.pop(k_, None)
                s.update(feats)
                s["has_prob_rule"] = has_prob_rule
                s["prob_rule_twice"] = bool(feats.get("dup_prob_clause") or feats.get("annotated_and_choice") or
                                            feats.get("undefined_internal") or len(re.findall(r"(?m)^\S+ :- .*choice\(", text or "")) >
                                            len(set(re.findall(r"(?m)^\S+ :- .*choice\(.*$", text or ""))))
            for what, sig in fails[:1]:
                small = P
                if nfail < 1 and ctx.known_match(sig) is None and not ctx.replay_in:
                    nfail += 1
                    small = shrink(P, sig, tn, sem_drv)
                ssrc = spine.to_src(small)
                detail = ""
                if small is P and text:
                    detail = " | exported: " + text.replace("\n", " ")[:400]
                ctx.fail(what + " | program: " + ssrc.replace("\n", " ") + detail, {"program": small, "src": ssrc, "target": tn}, sig)
            if len(ctx.samples) < 3 and text:
                ctx.sample({"src": src, "target": tn, "exported": text[:400]})
        d = r["dimacs"]
        if d is not None:
            ctx.case(d["text"], nontrivial=len(d["clauses"]) > 0)
            ctx.count("dimacs")
            lines.append("DIMACS %d (%s)" % (d["atomcount"], " ".join("(%s)" % " ".join(map(str, c)) for c in d["clauses"])))
            meta.append(("DIMACS", src, d["text"]))
            if d["names_exc"]:
                ctx.fail("to_dimacs(names=True): %s raised at %s | program: %s" % (d["names_exc"][0], d["names_exc"][1], src.replace("\n", " ")),
                         {"program": P, "src": src}, dict(kind="dimacs-exception", exc=d["names_exc"][0], site=d["names_exc"][1]))
            for key in ("text", "text_names"):
                if d[key] is None:
                    continue
                lines.append("READ " + mu_q(d[key]))
                meta.append(("READ", src, (d["atomcount"], d["clauses"])))
                nv, cls = py_read_dimacs(d[key])
                if nv != d["atomcount"] or cls != d["clauses"]:
                    ctx.fail("to_dimacs(%s): the text does not read back as the internal CNF (%s vars, %d clauses) | program: %s" % (
                        "names=True" if key == "text_names" else "", d["atomcount"], len(d["clauses"]), src.replace("\n", " ")),
                        {"program": P, "src": src}, dict(kind="dimacs-readback"))
    first = None
    ncmp = {}
    outs = drv.run(lines) if lines else []
    for out, (op, src, exp) in zip(outs, meta):
        ncmp[op] = ncmp.get(op, 0) + 1
        if op == "DIMACS":
            got = unq(out)
            ok = got == exp
        else:
            nv, cls = exp
            ok = out == "%d (%s)" % (nv, " ".join("(%s)" % " ".join(map(str, c)) for c in cls))
            got = out
        if not ok and first is None:
            first = (op, src, got, exp)
            ctx.disagree("%s model vs implementation" % op, "program %s | model %s | implementation %s" % (
                src.replace("\n", " ")[:400], str(got)[:500], str(exp)[:500]))
    ctx.extra["model_comparisons"] = ncmp
    ctx.obligation("correspondence: DIMACS writer/reader model = to_dimacs / internal clauses on %d artefacts (%s)" % (len(lines), ncmp),
                   first is None and len(lines) > 0, "" if first is None else first[0])
    return ctx.finish("proof")


def mu_q(s):
    from lib import q
    return q(s)


def unq(s):
    return s[1:-1].replace("\\n", "\n").replace('\\"', '"').replace("\\\\", "\\") if s.startswith('"') else s


def shrink(P, sig, tn, sem_drv, budget=30):
    from props.c01 import shrink_program
    calls = [0]

    def still(c):
        calls[0] += 1
        if calls[0] > budget:
            return False
        sem = semcheck.spec_batch(sem_drv, [c])[0]
        if sem is None or sem["undef"] > 0:
            return False
        src = spine.to_src(c)
        if semcheck.compare(c, sem, semcheck.run_cfg(src, {}), "original"):
            return False
        est, text, rerun, feats = export_and_rerun(src, tn)
        if est[0] == "error":
            return sig.get("kind") == "export-exception" and est[1][1] == sig.get("exc") and est[1][2] == sig.get("site")
        return any(s.get("kind") == sig.get("kind") and s.get("exc") == sig.get("exc") for _, s in semcheck.compare(c, sem, rerun, "x"))
    try:
        return shrink_program(P, still)
    except Exception:
        return P
