"""C31 — Bayesian-network export preserves the distribution.

Subject: `problog bn` = `LogicDAG.createFrom(..., label_all=True, avoid_name_clash=False, keep_order=True,
keep_all=False, keep_duplicates=False)` + `formula_to_bn` (problog/tasks/bayesnet.py) + `PGM/Factor/OrCPT`
(problog/pgm/cpd.py), with `LogicFormula.enum_clauses/extract_ads/get_body` (problog/formula.py) underneath.

Per generated evidence-free acyclic program:
  * the real construction is run (same calls and flags as `main`), the PGM is read out as plain data;
  * failing-input search, independent of the Lean model: a Python evaluator multiplies all CPTs out (enumeration in
    a topological order it computes itself; OrCPT read from `parentvalues`, not via `to_factor`) and compares the
    marginals of the exported query variables with ProbLog's own query probabilities and with the Lean `Sem`;
    a PGM that does not define a distribution (variable without factor, parent without variable, cycle, missing
    row, total mass != 1) is a failure too;
  * correspondence: the clause list `enum_clauses()` handed to `clause_to_cpt` is sent to the Lean model
    (`ProbLogModel.Tasks.BN`, driver `Drivers.C31`); its CPTs / OrCPT parent lists must equal the real PGM's, and
    its joint (product of CPT entries over all assignments, small nets) and atom-eliminated marginals must equal the
    Python evaluator's."""
import itertools
import os
from fractions import Fraction as F

import semcheck
import re
import spine
import tasks_util15 as tasks_util
from lib import close, pmap, rat

MODULE = "ProbLogProofs.Properties.C31"
THEOREMS = [
    "ProbLogProofs.C31.C31_cpt_normalised",
    "ProbLogProofs.C31.C31_cpt_entries_valid",
    "ProbLogProofs.C31.C31_or_cpt",
    "ProbLogProofs.C31.C31_or_cpt_add",
    "ProbLogProofs.C31.C31_joint_eliminates_atoms",
    "ProbLogProofs.C31.C31_marginal_partial",
]

MANIFEST = {
    "level": "other",
    "technique": "Lean 4 model of clause_to_cpt / OrCPT / PGM.add_factor and of the joint distribution as the product of "
                 "the CPTs, with theorems about the CPTs; exact correspondence of the model's CPTs with the real PGM on "
                 "the real enum_clauses() output of generated programs; independent Python evaluator multiplying the "
                 "exported factors out, compared with ProbLog's query probabilities and the Lean specification Sem",
    "text": "Proved (Lean, for all inputs): every row of a choice-node CPT built by clause_to_cpt sums to 1 (for all "
            "probabilities) and lies in [0,1] when the head probabilities are non-negative with sum <= 1; an OrCPT row is "
            "the deterministic OR of its (parent,value) list and merging two OrCPTs of one head is the OR of both; in "
            "the joint distribution (product of all CPT entries) the atom variables can be eliminated (they equal the OR "
            "of their parents on the support), and for a single annotated disjunction without body the marginal of head "
            "i is p_i and the total mass is 1 (C31_marginal_partial). The general statement 'marginal of the BN on a "
            "head = possible-world probability for acyclic clause lists' is NOT proved; it is checked on every generated "
            "program by multiplying the real exported factors out and comparing with ProbLog's answers and with Sem.",
    "note": "Level 'other' (partial proof + differential check): the deciding clause (marginals preserved) is explored, "
            "not proved. Model tied on every run: real enum_clauses() output -> model CPTs == real PGM tables (1e-9 on "
            "floats, exact on structure). The extraction of the clause list from the ground formula "
            "(enum_clauses/extract_ads/get_body) is not modelled; its defects are found by the evaluator. Only the CLI "
            "default flags (keep_all off, hide_builtins off) are exercised; output formats (hugin/xdsl/uai08/dot) are not "
            "parsed back. Query atoms that are deterministic or share a ground node with another exported name are not "
            "'exported query variables' (aliases are compared through the exported name).",
    "design_ref": "DESIGN.md §6 C31, §9",
}

LEAF_LIMIT = 60000


# --------------------------------------------------------------------------- real construction (worker side)
def build_bn(src):
    """Exactly the calls of problog.tasks.bayesnet.main (without file I/O and printing)."""
    from problog.formula import LogicDAG
    from problog.program import PrologString, ExtendedPrologFactory
    from problog.parser import DefaultPrologParser
    from problog.tasks.bayesnet import formula_to_bn
    gp = LogicDAG.createFrom(
        PrologString(src, parser=DefaultPrologParser(ExtendedPrologFactory())),
        label_all=True, avoid_name_clash=False, keep_order=True, keep_all=False, keep_duplicates=False,
        hide_builtins=False)
    bn = formula_to_bn(gp)
    return gp, bn


def pgm_data(bn):
    from problog.pgm.cpd import OrCPT
    vs = {n: list(v.values) for n, v in bn.vars.items()}
    fs = []
    for rv, f in bn.factors.items():
        if isinstance(f, OrCPT):
            fs.append((rv, "or", list(f.parents), [(p, v) for p, v in f.parentvalues]))
        else:
            fs.append((rv, "cpt", [str(p) for p in f.parents], {tuple(bool(x) for x in k): list(v) for k, v in f.table.items()}))
    return vs, fs


class Outside(Exception):
    pass


def ser_clauses(clauses):
    """The clause list as the Lean model reads it + the atom numbering. Mirrors the isinstance dispatch of
    clause_to_cpt (Clause, then Or, then Term)."""
    from problog.logic import Clause, Or, And, Not, Term
    ids = {}

    def aid(name):
        if name not in ids:
            ids[name] = len(ids)
        return ids[name]

    def prob(h):
        if h.probability is None:
            return "-"
        return rat(F(repr(float(h.probability.compute_value()))))

    def body(b):
        if isinstance(b, And):
            return "(and %s %s)" % (body(b.op1), body(b.op2))
        if isinstance(b, Or):
            return "(or %s %s)" % (body(b.op1), body(b.op2))
        if isinstance(b, Not):
            if isinstance(b.child, (And, Or, Not)):
                raise Outside("compound negation in a body")
            return "(n %d)" % aid(str(b.child))
        return "(a %d)" % aid(str(b))
    out = []
    for c in clauses:
        if isinstance(c, Clause):
            if isinstance(c.head, Or):
                heads = c.head.to_list()
            elif isinstance(c.head, Term):
                heads = [c.head]
            else:
                raise Outside("head type")
            hs = " ".join("(%d %s)" % (aid(str(h.with_probability())), prob(h)) for h in heads)
            out.append("(C (%s) %s)" % (hs, body(c.body)))
        elif isinstance(c, Or):
            hs = " ".join("(%d %s)" % (aid(str(h.with_probability())), prob(h)) for h in c.to_list())
            out.append("(O (%s) -)" % hs)
        elif isinstance(c, Term):
            out.append("(T ((%d %s)) -)" % (aid(str(c.with_probability())), prob(c)))
        else:
            raise Outside("clause type")
    return "(" + " ".join(out) + ")", ids


class BadBN(Exception):
    def __init__(self, cause, msg):
        Exception.__init__(self, msg)
        self.cause = cause


def marginals(vs, fs, limit=LEAF_LIMIT):
    """Independent evaluator: the joint is the product of all factors; enumeration in topological order, zero
    branches pruned. -> (total mass, {var: {value: mass}}) as exact rationals of the printed floats."""
    import sys
    by = {}
    for rv, kind, parents, tab in fs:
        if rv in by:
            raise BadBN("duplicate-factor", "two factors for %s" % rv)
        by[rv] = (kind, parents, tab)
    for v in vs:
        if v not in by:
            raise BadBN("no-factor", "variable %s has no factor" % v)
    for rv, (kind, parents, tab) in by.items():
        if rv not in vs:
            raise BadBN("undeclared-variable", "factor for undeclared variable %s" % rv)
        for p in parents:
            if p not in vs:
                raise BadBN("dangling-choice-parent" if str(p).startswith("choice(") else "dangling-parent",
                            "parent %s of %s is not a variable of the network" % (p, rv))
    order, seen, tmp = [], set(), set()
    sys.setrecursionlimit(max(10000, sys.getrecursionlimit()))

    def visit(v):
        if v in seen:
            return
        if v in tmp:
            raise BadBN("cycle", "cycle through %s" % v)
        tmp.add(v)
        for p in by[v][1]:
            visit(p)
        tmp.discard(v)
        seen.add(v)
        order.append(v)
    for v in vs:
        visit(v)
    marg = {v: {x: F(0) for x in vs[v]} for v in vs}
    total = [F(0)]
    leaves = [0]
    asg = {}

    def dist(v):
        kind, parents, tab = by[v]
        if kind == "or":
            if len(vs[v]) != 2:
                raise BadBN("or-arity", "OrCPT variable %s is not binary" % v)
            t = any(asg[p] == val for p, val in tab)
            return [(vs[v][1], F(1))] if t else [(vs[v][0], F(1))]
        key = tuple(bool(asg[p]) for p in parents)
        row = tab.get(key)
        if row is None:
            raise BadBN("no-row", "no row %s in the CPT of %s" % (key, v))
        if len(row) != len(vs[v]):
            raise BadBN("row-length", "row length of %s" % v)
        return [(x, F(repr(float(p)))) for x, p in zip(vs[v], row)]

    def rec(i, w):
        if i == len(order):
            leaves[0] += 1
            if leaves[0] > limit:
                raise BadBN("toobig", "too many joint assignments")
            total[0] += w
            for v in order:
                marg[v][asg[v]] += w
            return
        v = order[i]
        for x, p in dist(v):
            if p == 0:
                continue
            asg[v] = x
            rec(i + 1, w * p)
        asg.pop(v, None)
    rec(0, F(1))
    return total[0], marg


def work(src):
    """Everything that needs the real code, in a worker process. Returns picklable data."""
    res = {"top": semcheck.run_cfg(src, None, timeout=8)}

    def body():
        gp, bn = build_bn(src)
        clauses = list(gp.enum_clauses())
        res["clauses_txt"] = [str(c) for c in clauses]
        vs, fs = pgm_data(bn)
        res["pgm"] = (vs, fs)
        # queries: name -> node key; names per node (aliases)
        res["queries"] = [(str(n), k) for n, k in gp.queries()]
        by_node = {}
        for n, k in gp.get_names():
            if k is not None and k != 0:
                by_node.setdefault(k, []).append(str(n))
        res["names_by_node"] = by_node
        try:
            res["model_line"], res["ids"] = ser_clauses(clauses)
        except Outside as e:
            res["outside"] = str(e)
        try:
            res["eval"] = marginals(vs, fs)
        except BadBN as e:
            res["badbn"] = (e.cause, str(e))
    try:
        spine.with_timeout(20, body)
    except spine.Timeout:
        res["error"] = ("bn", "Timeout", "")
    except RecursionError as e:
        res["error"] = ("bn", "RecursionError", tasks_util.site_of(e))
    except Exception as e:
        res["error"] = ("bn", type(e).__name__, tasks_util.site_of(e))
    res["negated_name"] = negated_name_atom(src)
    return res


def negated_name_atom(src):
    """Structural condition of finding C31-negated-name-node: a relevant node of the ground program whose name is a
    negated term (its positive name was overwritten by the label `\\+query` of a query that is its negation)."""
    try:
        from problog.formula import LogicDAG
        from problog.program import PrologString, ExtendedPrologFactory
        from problog.parser import DefaultPrologParser
        gp = LogicDAG.createFrom(
            PrologString(src, parser=DefaultPrologParser(ExtendedPrologFactory())),
            label_all=True, avoid_name_clash=False, keep_order=True, keep_all=False, keep_duplicates=False,
            hide_builtins=False)
        rel = gp.extract_relevant()
        return any(rel[i] and n.name is not None and n.name.is_negated() for i, n, t in gp)
    except Exception:
        return False


# --------------------------------------------------------------------------- judgement
def judge(res, sem):
    """-> list of (what, signature): failures of the property on the real export."""
    out = []
    top = res["top"]
    if top[0] != "ok":
        return out
    if "error" in res:
        stage, name, site = res["error"]
        if name == "Timeout":
            return out
        out.append(("bn export raised %s at %s" % (name, site),
                    {"kind": "exception", "exc": name, "site": site, "negated_name_node": bool(res.get("negated_name"))}))
        return out
    if "badbn" in res:
        cause, msg = res["badbn"]
        if cause != "toobig":
            out.append(("the exported network does not define a distribution: %s" % msg,
                        {"kind": "ill-formed-bn", "cause": cause, "negated_name_node": bool(res.get("negated_name")),
                         "internal_parent": bool(re.search(r"parent (body|choice|node|aux)_", msg))}))
        return out
    Z, marg = res["eval"]
    if not close(Z, 1):
        out.append(("the product of the exported CPTs sums to %r, not 1" % float(Z), {"kind": "not-normalised"}))
    vs = res["pgm"][0]
    topv = top[1]
    for q, node in res["queries"]:
        p = topv.get(q)
        if p is None:
            continue
        var = q if q in vs else None
        if var is None:
            al = [n for n in res["names_by_node"].get(node, []) if n in vs] if node not in (0, None) else []
            if al:
                var = al[0]
        neg = False
        if var is None and ("\\+" + q) in vs:
            var, neg = "\\+" + q, True      # the node is only known under the negated name: P(\+q) must be 1 - P(q)
        if var is None:
            continue
        m = marg[var].get(1, F(0))
        if neg:
            m = 1 - m
        if not close(m, p):
            s = None if sem is None else sem["probs"].get(q)
            out.append(("P(%s = 1) = %r in the exported network%s, ProbLog answers %s = %r (Sem: %s)" % (
                var, float(m), "" if var == q else " (the exported name of the node of %s)" % q, q, p, s),
                {"kind": "wrong-marginal", "problog_agrees_with_sem": (s is not None and close(p, s)),
                 "negated_name_node": bool(res.get("negated_name"))}))
    return out


def same(a, b):
    return a["kind"] == b["kind"] and a.get("exc") == b.get("exc") and a.get("site") == b.get("site") and \
        a.get("cause") == b.get("cause")


# --------------------------------------------------------------------------- model correspondence
def parse_model(out):
    """Driver output -> dict(choices=[(parents, nvals, {key: row})], ors=[(atom, [(k, v)])], joint, det)."""
    import re
    if out.startswith("ERR:"):
        return {"error": out[4:]}
    toks = re.findall(r"\(|\)|[^\s()]+", out)
    pos = [0]

    def parse():
        t = toks[pos[0]]
        pos[0] += 1
        if t == "(":
            l = []
            while toks[pos[0]] != ")":
                l.append(parse())
            pos[0] += 1
            return l
        return t
    items = []
    while pos[0] < len(toks):
        items.append(parse())
    d = {}
    for it in items:
        d[it[0]] = it[1:]
    choices = []
    for c in d["choices"]:
        parents, nvals, rows = c
        choices.append(([int(x) for x in parents], int(nvals),
                        {tuple(x == "1" for x in k): [F(x) for x in r] for k, r in rows}))
    ors = [(int(a), [(int(k), int(v)) for k, v in pv]) for a, pv in d["ors"]]
    joint = None if d["joint"] == ["-"] else (F(d["joint"][0]), {int(a): F(m) for a, m in d["joint"][1:]})
    det = None if d["det"] == ["-"] else {int(a): F(m) for a, m in d["det"]}
    return {"choices": choices, "ors": ors, "joint": joint, "det": det}


def correspond(res, model):
    """-> None or a description of the first difference between the Lean model's network and the real PGM."""
    if "error" in res:
        if res["error"][1] == "AttributeError" and "clause_to_cpt" in res["error"][2]:
            return None if model.get("error") == "AttributeError" else "real AttributeError in clause_to_cpt, model %s" % (
                model.get("error") or "builds a network")
        return None     # raised before clause_to_cpt (enum_clauses): outside the model
    if "error" in model:
        return "model raises %s, real construction succeeds" % model["error"]
    vs, fs = res["pgm"]
    ids = res["ids"]
    name_of = {v: k for k, v in ids.items()}
    real_c = {rv: (parents, tab) for rv, kind, parents, tab in fs if kind == "cpt"}
    real_o = {rv: tab for rv, kind, parents, tab in fs if kind == "or"}
    if len(real_c) != len(model["choices"]):
        return "%d choice nodes, model %d" % (len(real_c), len(model["choices"]))
    for k, (parents, nvals, rows) in enumerate(model["choices"]):
        rv = "c%d" % k
        if rv not in real_c:
            return "no factor %s" % rv
        rp, rt = real_c[rv]
        if rp != [name_of[p] for p in parents]:
            return "%s: parents %s, model %s" % (rv, rp, [name_of[p] for p in parents])
        if vs.get(rv) != list(range(nvals)):
            return "%s: values %s, model 0..%d" % (rv, vs.get(rv), nvals - 1)
        if set(rt) != set(rows):
            return "%s: row keys differ" % rv
        for key, row in rows.items():
            rr = rt[key]
            if len(rr) != len(row) or any(not close(a, b) for a, b in zip(rr, row)):
                return "%s row %s: %s, model %s" % (rv, key, rr, [float(x) for x in row])
    mo = {name_of[a]: [("c%d" % k, v) for k, v in pv] for a, pv in model["ors"]}
    if list(mo) != [rv for rv, kind, _, _ in fs if kind == "or"]:
        return "OrCPT variables/order %s, model %s" % ([rv for rv, kind, _, _ in fs if kind == "or"], list(mo))
    for rv, pv in mo.items():
        if real_o[rv] != pv:
            return "OrCPT %s: parentvalues %s, model %s" % (rv, real_o[rv], pv)
        if vs.get(rv) != [0, 1]:
            return "%s: values %s" % (rv, vs.get(rv))
    if "eval" in res:
        Z, marg = res["eval"]
        for tag in ("joint", "det"):
            mm = model[tag]
            if mm is None:
                continue
            if tag == "joint":
                if not close(mm[0], Z):
                    return "total mass: model joint %s, evaluator %s" % (mm[0], Z)
                mm = mm[1]
            for a, m in mm.items():
                e = marg[name_of[a]].get(1, F(0))
                if not close(m, e):
                    return "marginal of %s: model (%s) %r, evaluator %r" % (name_of[a], tag, float(m), float(e))
    return None


def gen_case(rng):
    P = spine.gen_program(rng, cyclic=False, evidence=False)
    # the export only sees what is relevant for the queries: ask for more (incl. AD heads and base facts) half the time
    if rng.random() < 0.5:
        names = [p for p in P["preds"]]
        for _ in range(rng.randint(1, 3)):
            p = rng.choice(names)
            args = tuple((rng.choice(P["consts"]) if rng.random() < 0.4 else "_") for _ in range(P["preds"][p][0]))
            if (p, args) not in P["queries"]:
                P["queries"].append((p, args))
    return P


def run(ctx):
    ctx.rule = ("typed random acyclic evidence-free programs (probabilistic facts, ADs with and without bodies, "
                "probabilistic rules, stratified negation, ground and non-ground queries; half of them with additional "
                "queries on base/AD predicates); a case = one program exported by the bn task's construction; "
                "non-trivial = the exported network has at least 4 variables and a query with probability strictly "
                "between 0 and 1")
    ctx.proof_phase(MODULE, THEOREMS)
    drv = ctx.driver("Drivers.C31")
    sdrv = ctx.driver("Drivers.Spine")
    if drv is None or sdrv is None:
        return ctx.finish("other")
    rng = ctx.sub_rng("programs")
    if ctx.replay_in:
        import json
        progs = [tasks_util.load_program(json.load(open(ctx.replay_in))["replay"]["program"])]
    else:
        progs = [gen_case(rng) for _ in range(ctx.budget(220, 4000))]
    srcs = [spine.to_src(P) for P in progs]
    sems = semcheck.spec_batch(sdrv, progs)
    results = pmap(work, srcs, chunksize=2)
    lines, idx = [], []
    for i, res in enumerate(results):
        if "model_line" in res:
            lines.append("NET %s 70000 20000" % res["model_line"])
            idx.append(i)
    models = dict(zip(idx, drv.run(lines)))
    ndiff, ncorr, nshrunk = 0, 0, 0
    first_diff = None
    for i, (P, src, sem, res) in enumerate(zip(progs, srcs, sems, results)):
        if sem is not None and sem["undef"] > 0:
            ctx.count("outside-fragment(non-two-valued)")
            continue
        top = res["top"]
        if top[0] != "ok":
            ctx.count("top-level %s (C01's subject)" % top[1][1])
            continue
        if sem is not None and any(v is not None and k in top[1] and not close(top[1][k], v) for k, v in sem["probs"].items()):
            ctx.count("top level differs from Sem (C01's subject)")
            continue
        nvars = len(res["pgm"][0]) if "pgm" in res else 0
        ctx.case(src, nontrivial=nvars >= 4 and any(0 < v < 1 for v in top[1].values()))
        ctx.count("network variables<=%d" % (1 << max(0, nvars - 1).bit_length()) if "pgm" in res else "no network")
        if any(s[0] == "ad" for s in P["stmts"]):
            ctx.count("with-AD")
        if "badbn" in res and res["badbn"][0] == "toobig":
            ctx.count("evaluator skipped (too many joint assignments)")
        if "pgm" in res:
            vs = res["pgm"][0]
            for q, node in res["queries"]:
                if q in vs:
                    ctx.count("query exported")
                elif node in (0, None):
                    ctx.count("query deterministic (not exported)")
                elif any(n in vs for n in res["names_by_node"].get(node, [])):
                    ctx.count("query exported under another name of its node")
                elif ("\\+" + q) in vs:
                    ctx.count("query exported as its negation")
                else:
                    ctx.count("query not exported")
        if len(ctx.samples) < 3 and "eval" in res:
            ctx.sample({"src": src, "clauses": res["clauses_txt"][:12],
                        "bn_marginals": {k: float(v.get(1, 0)) for k, v in res["eval"][1].items() if k in top[1]},
                        "problog": top[1]})
        # ---- model correspondence
        if i in models:
            try:
                d = correspond(res, parse_model(models[i]))
            except Exception as e:     # malformed driver output is the harness's problem
                from lib import Infra
                raise Infra("cannot compare model output: %r (%s)" % (e, models[i][:200]))
            ncorr += 1
            if d is not None:
                ndiff += 1
                if first_diff is None:
                    first_diff = (src, d)
                ctx.disagree("BN model vs real PGM", "%s | program: %s" % (d, src.replace("\n", " ")))
        elif "outside" in res:
            ctx.count("outside the model: " + res["outside"])
        # ---- property
        seen = []
        for what, sig in judge(res, sem):
            if any(same(sig, s) for s in seen):
                continue
            seen.append(sig)

            def still(c, sig=sig):
                r2 = work(spine.to_src(c))
                return any(same(s, sig) for _, s in judge(r2, None))
            small = P
            if nshrunk < 3 and ctx.known_match(sig) is None:
                try:
                    small = tasks_util.shrink_program(P, still)
                except Exception:
                    small = P
                nshrunk += 1
                if small is not P:
                    for w2, s2 in judge(work(spine.to_src(small)), None):
                        if same(s2, sig):
                            what = w2       # describe the shrunk program, not the original one
                            break
            ctx.fail(what + " | program: " + spine.to_src(small).replace("\n", " "),
                     {"program": small, "src": spine.to_src(small)}, sig)
    ctx.obligation("correspondence: Lean BN model = real PGM (CPTs, OrCPTs, marginals) on %d exported programs" % ncorr,
                   ndiff == 0 and (ncorr > 0 or bool(ctx.replay_in)), "" if first_diff is None else first_diff[1])
    return ctx.finish("other", MANIFEST["text"])
