"""C20 — MPE returns a most probable world consistent with the evidence.

Implementation: `problog.tasks.mpe.mpe_semiring` and `mpe_maxsat` called as `main()` calls them (LogicFormula /
LogicDAG with label_all, avoid_name_clash; bundled maxsatz).
Specification oracle (Python, independent of the Lean model): exhaustive enumeration of the total choices of ProbLog's
own ground program (AD groups: exactly one of heads + 'none'); evidence-satisfying worlds, their exact weights, the
maximum.  The returned facts must be extendable to an evidence-satisfying world whose weight is the reported
probability; the reported probability must be maximal (MaxSAT: within n*1e-4 in log space, n = number of choice
atoms); no satisfying world <=> reported unsatisfiable (MaxSAT: UnsatisfiableError / facts None; semiring: probability 0).
Lean model (MPE.lean) run on the same artefacts: max-product evaluation of the NNF that mpe_semiring builds (value and
literal set), decomposability flag, the weighted DIMACS text given to the solver, the quantised objective / cost of the
solver's answer, the read-back of the probability."""
import math
import re
from fractions import Fraction as F

import spine
import mpe_util as mu
from lib import close, pmap

MODULE = "ProbLogProofs.Properties.C20"
THEOREMS = [
    "ProbLogProofs.C20.C20_maxprod_bound",
    "ProbLogProofs.C20.C20_maxprod_witness",
    "ProbLogProofs.C20.C20_maxprod",
    "ProbLogProofs.C20.C20_cost_eq_neg_obj",
    "ProbLogProofs.C20.C20_wcnf_opt",
    "ProbLogProofs.C20.C20_wcnf_quant",
    "ProbLogProofs.C20.C20_unsat",
]
REFUTATIONS = [
    "ProbLogProofs.C20.C20_maxprod_nondecomposable_refuted",
    "ProbLogProofs.C20.C20_semiring_ad_refuted",
]

MANIFEST = {
    "level": "proof",
    "technique": "Lean 4 theorems about a hand-written model of SemiringMPEState/FormulaEvaluatorNSP and of the weighted "
                 "CNF encoding; correspondence of the model with mpe.py/evaluator.py/cnf_formula.py on the artefacts of "
                 "generated programs; per-instance validation of maxsatz; exhaustive world enumeration as failing-input search",
    "text": "Theorems: on a decomposable NNF the max-product evaluation returns the maximum over satisfying assignments of "
            "the product of literal weights and its literal set is a witness (refuted with a witness for non-decomposable "
            "formulas and for AD constraints, which is what mpe_semiring evaluates: known findings); the cost of an "
            "assignment in the emitted WCNF is minus the quantised log-probability, an optimal solution is a model of "
            "CNF+evidence maximising it, hence within n*1e-4 of the MPE in log space; unsatisfiable hard clauses <=> no "
            "model. Every run: both MPE modes on generated programs with evidence against exhaustive enumeration over "
            "ProbLog's ground program; the model's value/literal set, DIMACS text, objective and read-back against the "
            "real code; maxsatz's answer validated (hard clauses, optimal objective).",
    "note": "Trusted: Lean kernel + standard axioms; harness; ProbLog's grounder for the set of relevant choices (checked "
            "by C01); maxsatz is validated per instance, not modelled. The evaluator's memoisation is not modelled (the "
            "model evaluates the unfolded formula). Float log-weights enter the model as exact rationals; the top weight "
            "(a float sum) is compared with tolerance 1.",
    "design_ref": "DESIGN.md §6 C20, §9",
}


def add_evidence(P, rng):
    """1-3 evidence literals: mostly atoms that are true in a sampled world (positive evidence on derived atoms
    constrains the choices), some false ones (negative evidence), 20% with a flipped value (possibly unsatisfiable)."""
    rules, groups = spine.reference(P)
    chosen = set()
    for g in groups:
        r, acc = rng.random(), 0.0
        for p, cid in g:
            acc += float(p)
            if r < acc:
                chosen.add(cid)
                break
    m = sorted(spine.lfp(rules, P["preds"], chosen))
    heads = sorted(set(h for h, b, c in rules))
    evs = []
    for _ in range(rng.randint(1, 3)):
        if m and rng.random() < 0.65:
            at = rng.choice(m)
        else:
            at = rng.choice(heads)
        val = at in set(m)
        if rng.random() < 0.2:
            val = not val
        if all(e[0] != at for e in evs):
            evs.append((at, val))
    P["evidence"] = evs


def gen(rng):
    P = spine.gen_program(rng, evidence=False)
    add_evidence(P, rng)
    if rng.random() < 0.5:
        P["queries"] = []
    return P


# --------------------------------------------------------------------------------------------------- checks
def fact_constraints(g, r, mode, have_queries):
    """Reported facts as constraints [(node key, bool)] on the ground view g (the DAG given to the task)."""
    byname = {}
    for a in g.atoms:
        byname.setdefault(str(g.f.get_node(a).name), []).append(a)
    cons = []
    if mode == "maxsat" and have_queries:
        keys = {}
        for qn, qi, ql in g.f.labeled():
            keys.setdefault(str(qn), []).append(qi)
        for s in r["facts"]:
            neg = s.startswith("\\+")
            ks = keys.get(s[2:] if neg else s, [])
            if len(ks) == 1 and ks[0] is not None and ks[0] != 0:
                cons.append((ks[0], not neg))
        return cons
    mentioned = set()
    for s in r["facts"]:
        neg = s.startswith("\\+")
        at = byname.get(s[2:] if neg else s, [])
        if len(at) == 1:
            cons.append((at[0], not neg))
            mentioned.add(at[0])
    if not have_queries and mode == "semiring":
        # full label set: AD choices are only mentioned positively
        for nm, at in byname.items():
            if len(at) == 1 and at[0] not in mentioned:
                cons.append((at[0], False))
    return cons


def check_mode(g, orc, r, mode, have_queries, flags):
    """-> (what, signature) or None."""
    sig = dict(mode=mode)
    sig.update(flags)
    if r["status"] == "error":
        if r["exc"] == "Timeout":
            return None
        sig.update(kind="exception", exc=r["exc"], site=r["site"])
        return "%s mode: %s raised at %s" % (mode, r["exc"], r["site"]), sig
    said_unsat = r["status"] == "unsat" or (mode == "semiring" and r["prob"] == 0)
    if orc["best"] is None:
        if said_unsat:
            return None
        sig.update(kind="missed-unsat")
        return "%s mode: no choice satisfies the evidence, but reported probability %r facts %s" % (
            mode, r["prob"], r["facts"]), sig
    if said_unsat:
        sig.update(kind="wrong-unsat")
        return "%s mode: reported unsatisfiable/0 although a world of probability %s satisfies the evidence" % (
            mode, float(orc["best"])), sig
    prob = r["prob"]
    n = len(g.atoms)
    tol = 1e-9 if mode == "semiring" else 1e-4 * n + 1e-9
    best = float(orc["best"])
    if prob > best * (1 + 1e-9):
        sig.update(kind="prob-too-high")
        return "%s mode: reported probability %r exceeds the maximum %r over worlds satisfying the evidence" % (
            mode, prob, best), sig
    if prob <= 0 or math.log(prob) < math.log(best) - tol:
        sig.update(kind="suboptimal")
        return "%s mode: reported probability %r, but a world with probability %r satisfies the evidence" % (
            mode, prob, best), sig
    known_names = set(str(g.f.get_node(a).name) for a in g.atoms) | set(str(qn) for qn, _, _ in g.f.labeled())
    for s_ in r["facts"]:
        nm = s_[2:] if s_.startswith("\\+") else s_
        if nm not in known_names:
            sig.update(kind="unknown-fact-name", name=nm)
            return "%s mode: reported fact %s is not an atom of the ground program (atoms: %s)" % (
                mode, s_, sorted(known_names)[:6]), sig
    cons = fact_constraints(g, r, mode, have_queries)
    match = [w for (w, true, val) in orc["sat"] if all(g.key_val(val, k) == b for k, b in cons)]
    if not match:
        sig.update(kind="facts-inconsistent")
        return "%s mode: no world satisfying the evidence agrees with the reported facts %s" % (mode, r["facts"]), sig
    if not any(close(prob, w) for w in match):
        sig.update(kind="prob-not-of-facts")
        return "%s mode: reported probability %r is not the probability of a world with the reported facts %s (%s)" % (
            mode, prob, r["facts"], sorted(set(float(w) for w in match))[:4]), sig
    return None


def work(src):
    """One program: both modes, oracle, serialised artefacts. Picklable result."""
    from problog.logic import Term
    import problog.tasks.mpe as mpe
    res = dict(src=src, fails=[], lines=[], counts=[], skip=None, nontrivial=False)
    have_queries = "query(" in src
    rm = mu.run_mpe(src, "maxsat", capture=True)
    dag = rm.get("dag")
    if dag is None:
        res["skip"] = "ground:" + rm.get("exc", "?")
        return res
    g = mu.Ground(dag)
    orc = mu.mpe_oracle(g, [k for _, k in dag.evidence()], limit=1 << 13)
    if orc is None:
        res["skip"] = "too-many-worlds"
        return res
    rs = mu.run_mpe(src, "semiring", capture=True)
    kc = rs.get("kc")
    res["nontrivial"] = len(g.atoms) >= 2 and any(k != "atom" for k in g.kind[1:])
    res["counts"].append("worlds<=%d" % (1 << max(0, g.nworlds() - 1).bit_length()))
    res["counts"].append("satisfiable" if orc["best"] is not None else "unsatisfiable")
    has_ad = bool(g.groups)
    dec = None
    if kc is not None:
        try:
            dec, _ = mu.nnf_flags(kc, kc.get_node_by_name(Term("query")))
        except KeyError:
            dec = None
    flags_s = dict(nnf_decomposable=dec, has_ad=has_ad)
    res["counts"].append("nnf-decomposable=%s,ad=%s" % (dec, has_ad))
    f = check_mode(g, orc, rs, "semiring", have_queries, flags_s)
    if f:
        res["fails"].append(f)
    f = check_mode(g, orc, rm, "maxsat", have_queries, {})
    if f:
        res["fails"].append(f)
    for _, sg in res["fails"]:
        sg["class"] = {"exception": "exception", "unknown-fact-name": "naming"}.get(sg["kind"], "wrong-mpe")
    res["summary"] = dict(best=None if orc["best"] is None else float(orc["best"]), semiring=(rs["status"], rs.get("prob")),
                          maxsat=(rm["status"], rm.get("prob")))
    # ---- artefacts for the Lean model
    if kc is not None:
        sr = mpe.SemiringMPEState()
        labels = mu.Labels()
        try:
            ws = kc.extract_weights(sr)
            raw = kc.evaluate(semiring=sr)
            qname = Term("query")
            qkey = kc.get_node_by_name(qname)
            p, labs = raw[qname]
            res["lines"].append(("NNFEVAL", "NNFEVAL max %s %s %s" % (mu.ser_nodes(kc), mu.ser_mpe_weights(ws, labels), mu.key_s(qkey)),
                                 (p, labels.lits(labs))))
            res["lines"].append(("DEC", "DEC %s %s" % (mu.ser_nodes(kc), mu.key_s(qkey)), dec))
        except Exception as e:  # evaluation of the captured NNF failed although mpe_semiring succeeded
            res["lines"].append(("NNFEVAL", None, "harness: %s %s" % (type(e).__name__, e)))
    for entry in rm.get("solver") or []:
        cnf = entry["cnf"]
        cl, wl, logws = mu.ser_wcnf(cnf)
        res["lines"].append(("WCNF", "WCNF f %d %s %s" % (cnf.atomcount, cl, wl), entry["text"]))
        result = entry.get("result")
        if result is None or rm["status"] != "ok":
            continue
        from problog.evaluator import SemiringProbability
        pw = cnf.extract_weights(SemiringProbability())
        atoms = [i for i, nd, t in dag if t == "atom"]
        res["lines"].append(("READBACK", "READBACK (atoms %s) (pw %s) (result %s)" % (
            " ".join(map(str, atoms)), " ".join("(%d %s %s)" % (i, mu.exact(a), mu.exact(b)) for i, (a, b) in pw.items()),
            " ".join(map(str, result))), rm.get("prob")))
        true = sorted(x for x in result if x > 0)
        tset = set(true)
        qobj = sum(mu.wt_int(wp if a in tset else wn) for a, (wp, wn) in logws.items())
        res["lines"].append(("QUANT", "QUANT f %d %s %s (true %s)" % (cnf.atomcount, cl, wl, " ".join(map(str, true))), qobj))
        # the solver's answer, validated against the enumeration (independent of the model)
        hard_ok = all(any(l is not None and (abs(l) in tset) == (l > 0)
                          for l in ([c[0]] if type(c[0]) is int else []) + list(c[1:])) for c in cnf.clauses)
        if not hard_ok:
            res["fails"].append(("maxsatz returned an assignment violating a hard clause", dict(mode="maxsat", kind="solver-hard-violated")))
        elif orc["sat"]:
            def q_world(true_atoms):
                return sum(mu.wt_int(wp if a in true_atoms else wn) for a, (wp, wn) in logws.items())
            qbest = max(q_world(t) for (_, t, _) in orc["sat"])
            if qobj < qbest:
                res["fails"].append(("maxsatz returned objective %d, but an assignment with %d satisfies CNF+evidence" % (qobj, qbest),
                                     dict(mode="maxsat", kind="solver-nonoptimal")))
    return res


def same_wcnf(model_text, impl_text):
    if model_text == impl_text:
        return True
    try:
        a, b = mu.parse_wcnf(model_text), mu.parse_wcnf(impl_text)
    except Exception:
        return False
    if a[0] != b[0] or a[1] != b[1] or abs(a[2] - b[2]) > 1 or len(a[3]) != len(b[3]):
        return False
    for (w1, l1), (w2, l2) in zip(a[3], b[3]):
        if l1 != l2:
            return False
        if w1 != w2 and not (w1 == a[2] and w2 == b[2]):
            return False
    return True


def unq(s):
    return s[1:-1].replace("\\n", "\n").replace('\\"', '"').replace("\\\\", "\\") if s.startswith('"') else s


def shrink(P, pred):
    from props.c01 import shrink_program
    return shrink_program(P, pred)


def run(ctx):
    ctx.rule = ("typed random programs of the C01 fragment with 1-2 evidence literals (80% sampled from a world, 20% "
                "arbitrary), half without queries (full assignment returned); a case = one program x 2 modes; distinct = "
                "distinct source; non-trivial = >= 2 choice atoms and a compound node in the ground program")
    ctx.proof_phase(MODULE, THEOREMS, refutations=REFUTATIONS)
    drv = ctx.driver("Drivers.C20")
    rng = ctx.sub_rng("programs")
    nprog = ctx.budget(150, 4000)
    if ctx.replay_in:
        import json
        rp = json.load(open(ctx.replay_in))["replay"]
        progs = [None]
        srcs = [rp["src"]]
    else:
        progs = [gen(rng) for _ in range(nprog)]
        # the witnesses of the known findings / fixed defects are always exercised
        srcs = [spine.to_src(P) for P in progs]
        extra = ["0.3::a; 0.6::b.\nevidence(a).\nevidence(b).",
                 "0.9::p0(X,Y) :- f0(Y), f0(X).\np1(X,Y) :- f0(X), p0(Y,Z).\n0.1::f0(b).\nevidence(p1(b,b)).",
                 "0.4::a.\n0.5::b.\nc :- a, b.\nd :- fail.\nevidence(c).\nquery(d).",
                 "0.4::a.\n0.7::b.\nc :- fail.\nevidence(c).\nquery(a)."]
        srcs += extra
        progs += [None] * len(extra)
    results = pmap(work, srcs, chunksize=2)
    lines, meta = [], []
    nfail = 0
    for P, r in zip(progs, results):
        if r["skip"]:
            ctx.count("skipped:" + r["skip"])
            continue
        ctx.case(r["src"], nontrivial=r["nontrivial"], n=2)
        ctx.programs += 1
        for c in r["counts"]:
            ctx.count(c)
        ctx.count("with-queries" if "query(" in r["src"] else "no-queries")
        if len(ctx.samples) < 4:
            ctx.sample({"src": r["src"], "result": r.get("summary")})
        for what, sig in r["fails"]:
            small_src = r["src"]
            if P is not None and nfail < 3 and ctx.known_match(sig) is None:
                def still(c, sig=sig):
                    if not c["evidence"]:
                        return False
                    r2 = work(spine.to_src(c))
                    return any(s2.get("kind") == sig.get("kind") and s2.get("mode") == sig.get("mode") and
                               s2.get("exc") == sig.get("exc") and s2.get("site") == sig.get("site") for _, s2 in r2["fails"])
                nfail += 1
                try:
                    small_src = spine.to_src(shrink(P, still))
                except Exception:
                    pass
            ctx.fail(what + " | program: " + small_src.replace("\n", " "), {"src": small_src}, sig)
        for op, line, exp in r["lines"]:
            if line is None:
                ctx.disagree(op, "%s | program %s" % (exp, r["src"].replace("\n", " ")))
                continue
            lines.append(line)
            meta.append((op, r["src"], exp))
    first = None
    ncmp = {}
    if drv is not None and lines:
        outs = drv.run(lines)
        for out, (op, src, exp) in zip(outs, meta):
            ok = True
            ncmp[op] = ncmp.get(op, 0) + 1
            if op == "NNFEVAL":
                m = re.match(r"ok (\S+) \(([^)]*)\) (tie|notie)$", out)
                if not m:
                    ok = False
                else:
                    p, labs = exp
                    ok = close(p, F(m.group(1)))
                    if ok and m.group(3) == "notie" and p > 0:
                        ok = [int(x) for x in m.group(2).split()] == labs
                    if m.group(3) == "tie":
                        ctx.count("semiring-tie")
            elif op == "DEC":
                ok = out == ("true" if exp else "false")
            elif op == "WCNF":
                ok = same_wcnf(unq(out), exp)
                out = unq(out)
            elif op == "READBACK":
                ok = close(exp, F(out)) if re.match(r"-?\d+(/\d+)?$", out) else False
            elif op == "QUANT":
                t = out.split()
                ok = len(t) == 4 and int(t[0]) == exp and int(t[1]) == -exp and t[2] == "true"
            if not ok and first is None:
                first = (op, src, out, exp)
                ctx.disagree("%s model vs implementation" % op, "program %s | model %s | implementation %s" % (
                    src.replace("\n", " ")[:600], str(out)[:600], str(exp)[:600]))
    ctx.extra["model_comparisons"] = ncmp
    ctx.obligation("correspondence: MPE model = implementation on %d artefacts (%s)" % (len(lines), ncmp),
                   first is None and drv is not None and len(lines) > 0, "" if first is None else first[0])
    return ctx.finish("proof")
