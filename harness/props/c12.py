"""C12 — built-in semirings obey their algebra and documented defaults.

Tie: `harness/py2lean` re-translates the semiring classes of problog/evaluator.py and problog/tasks/mpe.py into
lean/ProbLogModel/Generated/Semirings.lean on every run (the theorems of ProbLogProofs.Properties.C12 are about
those generated definitions), and every translated function is executed in the compiled Lean driver and in Python on
a grid (exact rationals vs floats; IEEE floats for the log semiring; strings for the symbolic one).
Search oracle (independent of the Lean model): the semiring laws, the "log is the logarithmic image of probability"
equations and the documented defaults, evaluated on the real semiring objects with tolerance."""
import itertools
import json
import math
from fractions import Fraction

import lib
from lib import Infra
import semiring_util as su

MODULE = "ProbLogProofs.Properties.C12"
THEOREMS = [
    "ProbLogProofs.C12." + t for t in [
        # probability semiring: commutative-semiring laws over ℚ on the generated definitions
        "C12_prob_plus_assoc", "C12_prob_plus_comm", "C12_prob_times_assoc", "C12_prob_times_comm",
        "C12_prob_distrib", "C12_prob_zero_plus", "C12_prob_one_times", "C12_prob_zero_times",
        "C12_prob_is_one_one", "C12_prob_is_zero_zero",
        "C12_prob_negate", "C12_prob_negate_negate", "C12_prob_normalize", "C12_prob_normalize_one",
        "C12_prob_normalize_zero", "C12_prob_ad_complement", "C12_prob_value_in_band", "C12_prob_value_outside",
        # log-probability semiring = logarithmic image of the probability semiring (over ℝ ∪ {−∞})
        "C12_log_one_zero", "C12_log_plus", "C12_log_times", "C12_log_negate", "C12_log_negate_guard",
        "C12_log_negate_invalid", "C12_log_normalize", "C12_log_value", "C12_log_value_clip",
        "C12_log_value_invalid", "C12_log_ad_complement", "C12_log_is_one_one", "C12_log_is_zero_zero",
        "C12_log_result",
        # symbolic semiring: eval is a homomorphism from the string-building operations
        "C12_sym_eval_of_lang", "C12_sym_atom", "C12_sym_value_numeral", "C12_sym_value_compound", "C12_sym_value_sum", "C12_sym_plus", "C12_sym_times", "C12_sym_negate",
        "C12_sym_normalize", "C12_sym_tree", "C12_sym_is_one_one", "C12_sym_is_zero_zero", "C12_sym_normalize_one",
        # base-class defaults, for every semiring that inherits them
        "C12_base_is_one", "C12_base_is_zero", "C12_base_normalize_one", "C12_base_true_false",
        # MPE semirings
        "C12_mpe_plus_max", "C12_minpe_plus_min", "C12_mpe_defaults",
    ]
]

MANIFEST = {
    "level": "proof",
    "technique": "Lean 4 theorems about Lean definitions regenerated from the Python source by a small ast->Lean "
                 "translator on every run, plus grid execution of every translated function in the compiled Lean "
                 "driver against the real Python objects, plus an independent law oracle on the real objects",
    "text": "Lean theorems (ℚ for the probability semiring; ℝ∪{−∞} with Mathlib's exp/log for the log semiring; a "
            "proved evaluator for the emitted string grammar for the symbolic semiring) about the definitions that "
            "harness/py2lean regenerates from problog/evaluator.py and problog/tasks/mpe.py at every run; each "
            "translated method is run in Lean and in Python on all pairs of a boundary-heavy grid and compared; the "
            "laws and defaults are also evaluated directly on the real objects (triples of the grid, tolerance 1e-9).",
    "note": "Trusted: Lean kernel, standard axioms, the translator (cross-checked by the grid execution), harness and "
            "driver glue. Floating point is tied by tolerance only (the theorems are exact statements over ℚ/ℝ). "
            "Symbolic atoms are plain decimals (no exponent notation).",
    "design_ref": "DESIGN.md §6 C12, §4.1",
}

CLASSES = ["Semiring", "SemiringProbability", "SemiringLogProbability", "SemiringSymbolic", "SemiringMPEState",
           "SemiringMinPEState"]
TAG = {"SemiringProbability": "P", "SemiringLogProbability": "L", "SemiringSymbolic": "S", "SemiringMPEState": "M",
       "SemiringMinPEState": "N", "Semiring": "B"}
BOUNDARY = {"is_one", "is_zero", "value", "in_domain", "negate", "pos_value", "neg_value"}


def required_items():
    import py2lean
    out = []
    for c in CLASSES:
        for m in py2lean.METHODS:
            if (c, m) in py2lean.EXCLUDE:
                continue
            out.append("%s.%s" % (c, m))
    return out


# --------------------------------------------------------------------------- wire format
parse_sexp = su.parse_sexp


class Kind:
    """How values of one class travel and compare."""

    def __init__(self, tag):
        self.tag = tag

    # python value -> wire text
    def wire(self, v):
        t = self.tag
        if t == "P":
            return lib.rat(v) if isinstance(v, (str, Fraction, int)) else lib.rat(Fraction(v))
        if t == "L":
            return su.fbits(v)
        if t == "S":
            return lib.q(v)
        if t in "MN":
            return "(%s (%s))" % (lib.rat(v[0]), " ".join(str(k) for k in sorted(v[1])))
        if t == "B":
            return str(v)
        raise Infra("kind")

    # parsed driver output -> python value (exact side)
    def unwire(self, x):
        t = self.tag
        if t == "P":
            return Fraction(x)
        if t == "L":
            return su.unbits(x)
        if t == "S":
            if not (isinstance(x, tuple) and x[0] == "str"):
                raise Infra("expected string, got %r" % (x,))
            return x[1]
        if t in "MN":
            return (Fraction(x[0]), frozenset(int(k) for k in x[1]))
        if t == "B":
            return int(x)
        raise Infra("kind")

    def same(self, model, impl):
        t = self.tag
        try:
            if t == "P":
                return lib.close(impl, model)
            if t == "L":
                return su.fclose(float(impl), model)
            if t == "S":
                return model == impl
            if t in "MN":
                return lib.close(impl[0], model[0]) and frozenset(impl[1]) == model[1]
            if t == "B":
                return float(impl) == float(model)
        except (TypeError, ValueError, IndexError):
            return False
        return False


RESULT = {  # method -> result shape: 'c' carrier, 'b' bool, 'p' pair of carriers
    "one": "c", "zero": "c", "is_one": "b", "is_zero": "b", "plus": "c", "times": "c", "negate": "c",
    "normalize": "c", "value": "c", "in_domain": "b", "ad_complement": "c", "pos_value": "c", "neg_value": "c",
    "true": "p", "false": "p", "to_evidence": "p", "ad_negate": "c", "result": "c",
}


def decode(kind, meth, line):
    """Driver output line -> ('err', name) | ('ok', value)."""
    if line.startswith("ERR:"):
        return ("err", line[4:])
    if line == "bad-op":
        return ("bad", line)
    x = parse_sexp(line)
    shape = RESULT[meth]
    if shape == "b":
        return ("ok", {"true": True, "false": False}[x])
    if shape == "p":
        return ("ok", (kind.unwire(x[0]), kind.unwire(x[1])))
    return ("ok", kind.unwire(x))


def agree(kind, meth, model, impl):
    if model[0] != impl[0]:
        return False
    if model[0] == "err":
        return model[1] == impl[1]
    if model[0] != "ok":
        return False
    shape = RESULT[meth]
    if shape == "b":
        return model[1] == bool(impl[1])
    if shape == "p":
        try:
            return len(impl[1]) == 2 and kind.same(model[1][0], impl[1][0]) and kind.same(model[1][1], impl[1][1])
        except TypeError:
            return False
    return kind.same(model[1], impl[1])


def call_impl(obj, meth, args):
    try:
        return ("ok", getattr(obj, meth)(*args))
    except Exception as e:  # the exception class is the observable
        return ("err", type(e).__name__)


# --------------------------------------------------------------------------- semiring objects
def objects():
    from problog.evaluator import Semiring, SemiringProbability, SemiringLogProbability, SemiringSymbolic
    from problog.tasks.mpe import SemiringMPEState, SemiringMinPEState

    class IntSemiring(Semiring):
        """A user-defined semiring that relies on every base-class default."""

        def one(self):
            return 1

        def zero(self):
            return 0

        def plus(self, a, b):
            return a + b

        def times(self, a, b):
            return a * b

    return {"SemiringProbability": SemiringProbability(), "SemiringLogProbability": SemiringLogProbability(),
            "SemiringSymbolic": SemiringSymbolic(), "SemiringMPEState": SemiringMPEState(),
            "SemiringMinPEState": SemiringMinPEState(), "Semiring": IntSemiring()}


class Ext(float):
    """External value as `value` receives it: convertible with float(), carrying a `.location` (like a Constant;
    problog.logic.Constant itself rounds to 15 decimals, which is not the semiring's business)."""
    location = None


def ext(x):
    return Ext(x)


def log_of(t):
    f = float(t)
    return float("-inf") if f == 0.0 else math.log(f)


def flog(q):
    """log of an exact non-negative rational (no underflow)."""
    q = Fraction(q)
    return float("-inf") if q <= 0 else math.log(q.numerator) - math.log(q.denominator)


# --------------------------------------------------------------------------- correspondence queries
def build_queries(ctx, rng):
    """List of (class, method, impl_args, wire_args, boundary_wire_variants)."""
    qs = []
    grid = su.prob_grid(rng)
    outside = ["-0.5", "1.5", "-1e-9", "1.000000001", "-2e-9", "1.000000002", "-5e-10", "1.0000000005", "2", "-1e-12",
               "1.000000000001", "1e-10", "0.9999999999", "1e-13", "0.9999999999999"]
    P = Kind("P")
    L = Kind("L")
    keys = [3, -2]

    def add(cls, meth, impl_args, wire_args, variants=None):
        qs.append((cls, meth, impl_args, wire_args, variants))

    # ---- probability: decimal texts; python sees float(text), the model the exact rational of the text
    def pvar(t):
        q = Fraction(t)
        d = abs(q) * Fraction(1, 10 ** 13) if q != 0 else Fraction(1, 10 ** 300)
        return [lib.rat(q - d), lib.rat(q + d)]

    c = "SemiringProbability"
    add(c, "one", [], [])
    add(c, "zero", [], [])
    for t in grid + outside:
        f = float(t)
        for m in ("is_one", "is_zero", "negate", "in_domain"):
            add(c, m, [f], [P.wire(t)], [[v] for v in pvar(t)] if m in BOUNDARY else None)
        add(c, "value", [ext(f)], [P.wire(t)], [[v] for v in pvar(t)])
        add(c, "result", [f], [P.wire(t)])
        for k in keys:
            add(c, "pos_value", [ext(f), k], [P.wire(t), str(k)], [[v, str(k)] for v in pvar(t)])
            add(c, "neg_value", [ext(f), k], [P.wire(t), str(k)], [[v, str(k)] for v in pvar(t)])
    for a, b in itertools.product(grid, repeat=2):
        fa, fb = float(a), float(b)
        for m in ("plus", "times", "normalize", "ad_negate"):
            add(c, m, [fa, fb], [P.wire(a), P.wire(b)])
        s = rng.choice([-1, 0, 1, 2])
        add(c, "to_evidence", [fa, fb, s], [P.wire(a), P.wire(b), str(s)])
    for k in keys:
        add(c, "true", [k], [str(k)])
        add(c, "false", [k], [str(k)])
    for n in range(ctx.budget(60, 600)):
        ws = [rng.choice(grid) for _ in range(rng.randrange(0, 5))]
        add(c, "ad_complement", [[float(w) for w in ws], 7], ["(" + " ".join(P.wire(w) for w in ws) + ")", "7"])

    # ---- log probability: floats travel as bit patterns, both sides compute in IEEE doubles
    def lvar(x):
        if math.isinf(x) or math.isnan(x):
            return [su.fbits(x), su.fbits(x)]
        if x == 0.0:
            return [su.fbits(-1e-300), su.fbits(1e-300)]
        return [su.fbits(x * (1 - 1e-13)), su.fbits(x * (1 + 1e-13))]

    c = "SemiringLogProbability"
    lgrid = [log_of(t) for t in grid] + [-1e-10, -1e-11, -2e-10, 1e-12, 1e-13, 2e-12, 0.1, -1e100, -1e101, -700.0, -745.2]
    add(c, "one", [], [])
    add(c, "zero", [], [])
    for x in lgrid:
        for m in ("is_one", "is_zero", "negate", "in_domain"):
            add(c, m, [x], [L.wire(x)], [[v] for v in lvar(x)])
        add(c, "result", [x], [L.wire(x)])
    for t in grid + outside:
        f = float(t)
        add(c, "value", [ext(f)], [L.wire(f)], [[v] for v in lvar(f)])
        for k in keys[:1]:
            add(c, "pos_value", [ext(f), k], [L.wire(f), str(k)], [[v, str(k)] for v in lvar(f)])
            add(c, "neg_value", [ext(f), k], [L.wire(f), str(k)], [[v, str(k)] for v in lvar(f)])
    for a, b in itertools.product(lgrid, repeat=2):
        for m in ("plus", "times", "normalize", "ad_negate"):
            add(c, m, [a, b], [L.wire(a), L.wire(b)])
        s = rng.choice([-1, 0, 1, 2])
        add(c, "to_evidence", [a, b, s], [L.wire(a), L.wire(b), str(s)])
    for k in keys:
        add(c, "true", [k], [str(k)])
        add(c, "false", [k], [str(k)])
    for n in range(ctx.budget(60, 600)):
        ws = [log_of(rng.choice(grid)) for _ in range(rng.randrange(0, 5))]
        # boundary variants (all weights nudged down / up): when the sum of the weights sits on the 1 +- 1e-12 threshold
        # of the complement, float rounding decides between a value and InvalidValue
        varis = [["(" + " ".join(lvar(w)[j] for w in ws) + ")", "7"] for j in (0, 1)] + \
                [["(" + " ".join(su.fbits(w + d) for w in ws) + ")", "7"] for d in (-3e-12, 3e-12)]
        add(c, "ad_complement", [ws, 7], ["(" + " ".join(L.wire(w) for w in ws) + ")", "7"], varis if ws else None)

    # ---- MPE / MinPE: (probability, set of literals)
    for c in ("SemiringMPEState", "SemiringMinPEState"):
        K = Kind(TAG[c])
        vals = []
        for t in grid[:9] + grid[-3:]:
            ks = frozenset(rng.sample([1, -1, 2, -2, 3, 5, -7], rng.randrange(0, 4)))
            vals.append((t, ks))
        vals.append(("1", frozenset()))
        vals.append(("0", frozenset()))
        add(c, "one", [], [])
        add(c, "zero", [], [])
        for (t, ks) in vals:
            pv = (float(t), set(ks))
            w = K.wire((t, ks))
            for m in ("is_one", "is_zero", "negate", "in_domain", "result"):
                add(c, m, [pv], [w])
            for k in keys:
                add(c, "pos_value", [ext(float(t)), k], [Kind("P").wire(t), str(k)])
                add(c, "neg_value", [ext(float(t)), k], [Kind("P").wire(t), str(k)])
        for (ta, ka), (tb, kb) in itertools.product(vals, repeat=2):
            a, b = (float(ta), set(ka)), (float(tb), set(kb))
            for m in ("plus", "times", "normalize", "ad_negate"):
                add(c, m, [a, b], [K.wire((ta, ka)), K.wire((tb, kb))])
            s = rng.choice([-1, 0, 1])
            add(c, "to_evidence", [a, b, s], [K.wire((ta, ka)), K.wire((tb, kb)), str(s)])
        for k in keys:
            add(c, "true", [k], [str(k)])
            add(c, "false", [k], [str(k)])
        for n in range(40):
            ws = [rng.choice(vals) for _ in range(rng.randrange(0, 4))]
            add(c, "ad_complement", [[(float(t), set(ks)) for t, ks in ws], 9],
                ["(" + " ".join(K.wire(w) for w in ws) + ")", "9"])

    # ---- symbolic: the inherited defaults on strings (the string builders are exercised in `symbolic`)
    c = "SemiringSymbolic"
    S = Kind("S")
    strs = ["0", "1", "0.5", "(0.3 + 0.2)", "0.2*0.9", "(1-0.25)"]
    add(c, "one", [], [])
    add(c, "zero", [], [])
    for x in strs:
        for m in ("is_one", "is_zero", "in_domain", "result", "negate"):
            add(c, m, [x], [S.wire(x)])
    # labels as `value`/`pos_value`/`neg_value` receive them: atoms and numbers (text, Constant) and compound terms; a
    # plain str whose text looks compound is never a label (the model sees only the text of a label)
    from problog.logic import Term, Constant
    for x in ["0", "1", "0.5", Constant(0.5), Constant(1), Term("p_a"), Term.from_string("0.3+0.2"),
              Term.from_string("0.5*0.5"), Term.from_string("1-0.25"), Term.from_string("t(0.5)")]:
        add(c, "value", [x], [S.wire(str(x))])
        add(c, "pos_value", [x, 2], [S.wire(str(x)), "2"])
        add(c, "neg_value", [x, 2], [S.wire(str(x)), "2"])
    for a, b in itertools.product(strs, repeat=2):
        add(c, "ad_negate", [a, b], [S.wire(a), S.wire(b)])
        add(c, "normalize", [a, b], [S.wire(a), S.wire(b)])
        for sg in (-1, 1):
            add(c, "to_evidence", [a, b, sg], [S.wire(a), S.wire(b), str(sg)])
        add(c, "ad_complement", [[a, b], 1], ["(%s %s)" % (S.wire(a), S.wire(b)), "1"])
    add(c, "ad_complement", [[], 1], ["()", "1"])
    add(c, "true", [1], ["1"])
    add(c, "false", [1], ["1"])

    # ---- base-class defaults through a user-defined subclass over int
    c = "Semiring"
    ints = [0, 1, 2, -1, 5]
    for x in ints:
        for m in ("is_one", "is_zero", "negate", "value", "in_domain", "result"):
            add(c, m, [x], [str(x)])
        add(c, "pos_value", [x, 1], [str(x), "1"])
        add(c, "neg_value", [x, 1], [str(x), "1"])
    for a, b in itertools.product(ints, repeat=2):
        add(c, "normalize", [a, b], [str(a), str(b)])
        add(c, "ad_negate", [a, b], [str(a), str(b)])
        for s in (-1, 0, 1):
            add(c, "to_evidence", [a, b, s], [str(a), str(b), str(s)])
    add(c, "true", [4], ["4"])
    add(c, "false", [4], ["4"])
    add(c, "ad_complement", [[1, 2, 3], 4], ["(1 2 3)", "4"])
    add(c, "ad_complement", [[], 4], ["()", "4"])
    return qs, grid


def outcome_class(res):
    """Coarse outcome used to detect that an input sits on a branch boundary of the model."""
    if res[0] != "ok":
        return res
    v = res[1]
    if isinstance(v, bool):
        return ("bool", v)
    if isinstance(v, float) and math.isinf(v):
        return ("inf", v)
    return ("ok",)


def correspondence(ctx, drv, objs, rng):
    qs, grid = build_queries(ctx, rng)
    lines, index = [], []
    for i, (cls, meth, iargs, wargs, variants) in enumerate(qs):
        lines.append(" ".join([TAG[cls], meth] + wargs))
        index.append((i, None))
        for v in variants or []:
            lines.append(" ".join([TAG[cls], meth] + v))
            index.append((i, "var"))
    outs = drv.run(lines)
    main, var = {}, {}
    for (i, kind), o in zip(index, outs):
        if kind is None:
            main[i] = o
        else:
            var.setdefault(i, []).append(o)
    ndiff, first = 0, None
    skipped = 0
    for i, (cls, meth, iargs, wargs, variants) in enumerate(qs):
        kind = Kind(TAG[cls])
        ctx.count("corr %s" % cls)
        model = decode(kind, meth, main[i])
        if variants:
            classes = {repr(outcome_class(model))} | {repr(outcome_class(decode(kind, meth, o))) for o in var[i]}
            if len(classes) > 1:
                skipped += 1
                ctx.count("corr skipped: input on a branch boundary of the model (float rounding decides)")
                continue
        impl = call_impl(objs[cls], meth, iargs)
        ctx.case(("corr", cls, meth, wargs), nontrivial=bool(wargs))
        if not agree(kind, meth, model, impl):
            ndiff += 1
            if first is None:
                first = "%s.%s(%s): model %s, implementation %s" % (cls, meth, ", ".join(map(str, iargs)), main[i], impl)
    ctx.sample({"correspondence query": lines[len(lines) // 3], "model answer": outs[len(lines) // 3]})
    if first:
        ctx.disagree("generated semiring definitions vs Python objects", "%d differences; first: %s" % (ndiff, first))
    ctx.obligation("correspondence: %d translated-method executions, Lean = Python (%d boundary inputs skipped)" % (
        len(qs) - skipped, skipped), first is None, first or "")
    return grid


# --------------------------------------------------------------------------- symbolic: strings and eval
ATOMS = ["0", "1", "0.5", "0.25", "0.3", "0.2", "0.9", "0.125", "0.75", "0.0001", "2", "0.6"]


def py_eval(s):
    """Python's own arithmetic on the emitted string (floats)."""
    try:
        return ("ok", eval(s, {"__builtins__": {}}, {}))
    except ZeroDivisionError:
        return ("none", None)
    except SyntaxError:
        return ("none", None)


def exact_eval(s):
    """Exact value of an arithmetic string under Python's grammar (numerals read as exact decimals); None if Python
    rejects the string or divides by zero."""
    import re
    try:
        return Fraction(eval(re.sub(r"\d+(?:\.\d+)?", lambda m: 'F("%s")' % m.group(0), s), {"__builtins__": {}, "F": Fraction}, {}))
    except (ZeroDivisionError, SyntaxError, TypeError, ValueError):
        return None


def symbolic(ctx, drv, objs, rng):
    """Random expression trees built with the real SemiringSymbolic; every string operation and `eval` are compared
    with the generated Lean definitions; the homomorphism is checked on the real object (independent oracle)."""
    sr = objs["SemiringSymbolic"]
    ntrees = ctx.budget(400, 6000)
    first_diff = None
    fails = []
    lines, expect = [], []

    def q(cmd, args, want):
        lines.append("S %s %s" % (cmd, " ".join(lib.q(a) for a in args)))
        expect.append((cmd, args, want))

    pool = []
    for a in ATOMS:
        pool.append((sr.value(a), Fraction(a)))  # (string, the exact value it denotes)
        q("value", [a], sr.value(a))
    # labels as the formula hands them to `value`: Constants and compound arithmetic terms (`(0.2+0.1)::a`); the
    # model receives their text.  What `value` returns must denote the label's number AS ONE FACTOR: it joins the pool,
    # so that the products and negations built from it are checked by the oracle below.
    from problog.logic import Term, Constant
    labels = [Constant(0.5), Constant(1), Constant(0.25), Term.from_string("0.2+0.1"), Term.from_string("0.5*0.5"),
              Term.from_string("1-0.25"), Term.from_string("0.1+0.2+0.3"), Term.from_string("(0.1+0.2)*0.5"),
              Term.from_string("0.6/2"), Term.from_string("0.5-0.25"), Term.from_string("0.2+0.1*2")]
    for t in labels:
        ctx.count("symbolic value of a %s label" % ("compound" if t.arity > 0 else "constant"))
        try:
            r = sr.value(t)
            if not isinstance(r, str):
                raise TypeError("returns %r" % (r,))
        except Exception as e:
            fails.append(("value", [str(t)], "<%s>" % type(e).__name__, str(exact_eval("(%s)" % t)), None))
            continue
        q("value", [str(t)], r)
        pool.append((r, exact_eval("(%s)" % t)))
    natoms = len(pool)
    for n in range(ntrees):
        op = rng.choice(["plus", "times", "negate", "normalize", "plus", "times"])
        (a, va) = rng.choice(pool) if rng.random() < 0.7 else rng.choice(pool[:natoms])
        (b, vb) = rng.choice(pool) if rng.random() < 0.7 else rng.choice(pool[:natoms])
        if len(a) + len(b) > 160:
            (b, vb) = rng.choice(pool[:natoms])
            if len(a) > 160:
                (a, va) = rng.choice(pool[:natoms])
        if op == "normalize" and vb == 0:
            continue
        args = [a] if op == "negate" else [a, b]
        v = {"negate": lambda: 1 - va, "plus": lambda: va + vb, "times": lambda: va * vb, "normalize": lambda: va / vb}[op]()
        ctx.count("symbolic op %s" % op)
        ctx.case(("sym", op, args))
        try:
            r = getattr(sr, op)(*args)
            if not isinstance(r, str):
                raise TypeError("returns %r" % (r,))
        except Exception as e:  # a string builder that raises: a failed case, not a harness crash
            fails.append((op, args, "<%s>" % type(e).__name__, str(v), None))
            continue
        q(op, args, r)
        if "0.1+0.2+0.3" not in r:  # a chained sum inside a label: outside the grammar of the MODEL's evaluator (the
            q("eval", [r], None)    # oracle below still evaluates it)
        # independent oracle: the exact value of the built string is the operation applied to the exact values of the
        # operand strings (each check is local: the pool keeps what a string really denotes)
        got = exact_eval(r)
        if got is None or got != v:
            fails.append((op, args, r, str(v), got))
            if got is None:
                continue
        v = got
        pool.append((r, v))
    outs = drv.run(lines)
    for (cmd, args, want), o in zip(expect, outs):
        if cmd == "eval":
            ee = exact_eval(args[0])
            ok = (o == "none" and ee is None) or (o not in ("none", "bad-op") and ee is not None and Fraction(o) == ee)
        else:
            try:
                ok = parse_sexp(o) == ("str", want)
            except Exception:
                ok = False
        if not ok and first_diff is None:
            first_diff = "S %s %s: model %s, implementation %s" % (cmd, args, o, want if cmd != "eval" else exact_eval(args[0]))
    # strings outside the grammar / division by zero: eval has no value on both sides
    bad = ["", "(", "1 +", "(1 + 2", "(1) / (0)", "0.5*", "*0.5", "1..2", "(0.3 + 0.2))", "1 2", "(1-0.3", "0.3 / 0*2", "1.5.2"]
    # valid Python that SemiringSymbolic never emits: outside the evaluator's grammar by design
    never = ["1 + 2", "1//2", "(1--2)", "()", ".5", "5.", "1e-05", "2**3", "-1"]
    outs = drv.run(["S eval %s" % lib.q(b) for b in bad + never])
    for b, o in zip(bad + never, outs):
        ctx.count("symbolic eval of a string outside the grammar")
        pe = py_eval(b) if b in bad else ("none", None)
        ok = (o == "none") == (pe[0] == "none")
        if not ok and first_diff is None:
            first_diff = "S eval %r: model %s, Python %s" % (b, o, pe)
    if first_diff:
        ctx.disagree("SemiringSymbolic strings / eval", first_diff)
    ctx.obligation("correspondence: %d symbolic string operations and evaluations, Lean = Python" % len(lines),
                   first_diff is None, first_diff or "")
    if fails:
        # shrink: prefer the failure with the shortest operands
        op, args, r, v, got = min(fails, key=lambda f: sum(len(x) for x in f[1]))
        ctx.fail("SemiringSymbolic.%s(%s) = %r evaluates to %s, the operation on the operands' values gives %s" % (
            op, ", ".join(repr(a) for a in args), r, got, Fraction(v)),
            {"kind": "symbolic", "op": op, "args": args}, {"kind": "symbolic-homomorphism", "op": op})
    ctx.sample({"symbolic": lines[-2], "eval": outs and lines[-1]})


# --------------------------------------------------------------------------- the laws on the real objects
def approx(a, b, tol=1e-9):
    if isinstance(a, str) or isinstance(b, str):
        return a == b
    if isinstance(a, tuple) or isinstance(b, tuple):
        return len(a) == len(b) and all(approx(x, y, tol) for x, y in zip(a, b))
    if isinstance(a, (set, frozenset)):
        return a == b
    return su.fclose(float(a), float(b), tol)


def log_close(x, y):
    """Two log-probabilities denote the same probability (1e-9 on the probability, 1e-9 relative on the log)."""
    if math.isnan(x) or math.isnan(y):
        return False
    if x == y:
        return True
    ex = 0.0 if x == float("-inf") else su.safe_exp(x)
    ey = 0.0 if y == float("-inf") else su.safe_exp(y)
    if abs(ex - ey) > 2e-9:
        return False
    if math.isinf(x) or math.isinf(y):
        return max(ex, ey) <= 2e-9
    return abs(x - y) <= 1e-9 * max(1.0, abs(x), abs(y)) or max(ex, ey) <= 2e-9


def laws(ctx, objs, grid, rng):
    """Independent oracle: the laws themselves on the real semiring objects."""
    P, L = objs["SemiringProbability"], objs["SemiringLogProbability"]
    fl = [float(t) for t in grid]
    viol = []

    def chk(ok, cls, law, args):
        """`ok` is a thunk: an exception escaping a semiring method is a failed law, not a harness crash."""
        ctx.count("law %s" % cls)
        ctx.case(("law", cls, law, args))
        try:
            good = bool(ok())
        except Exception:
            good = False
        if not good:
            viol.append((cls, law, args))

    def guard(f):
        try:
            return f()
        except Exception as e:
            return ("EXC", type(e).__name__)

    # probability semiring
    for a, b, c in itertools.product(fl, repeat=3):
        chk(lambda: approx(P.plus(P.plus(a, b), c), P.plus(a, P.plus(b, c))), "SemiringProbability", "plus_assoc", [a, b, c])
        chk(lambda: approx(P.times(P.times(a, b), c), P.times(a, P.times(b, c))), "SemiringProbability", "times_assoc", [a, b, c])
        chk(lambda: approx(P.times(a, P.plus(b, c)), P.plus(P.times(a, b), P.times(a, c))), "SemiringProbability", "distrib", [a, b, c])
    for a, b in itertools.product(fl, repeat=2):
        chk(lambda: P.plus(a, b) == P.plus(b, a), "SemiringProbability", "plus_comm", [a, b])
        chk(lambda: P.times(a, b) == P.times(b, a), "SemiringProbability", "times_comm", [a, b])
        if b > 1e-6:
            chk(lambda: approx(P.times(P.normalize(a, b), b), a), "SemiringProbability", "normalize", [a, b])
    for a in fl:
        chk(lambda: approx(P.plus(P.zero(), a), a) and approx(P.times(P.one(), a), a) and approx(P.times(P.zero(), a), P.zero()),
            "SemiringProbability", "identities", [a])
        chk(lambda: approx(P.negate(a), 1 - a) and approx(P.negate(P.negate(a)), a) and approx(P.plus(a, P.negate(a)), P.one()),
            "SemiringProbability", "negate", [a])
        chk(lambda: P.in_domain(a) and guard(lambda: P.value(ext(a))) == a, "SemiringProbability", "value", [a])
    # log semiring is the logarithmic image of the probability semiring
    lg = [log_of(t) for t in grid]
    for (a, la), (b, lb) in itertools.product(list(zip(fl, lg)), repeat=2):
        r = guard(lambda: L.plus(la, lb))
        chk(lambda: isinstance(r, float) and log_close(r, flog(Fraction(a) + Fraction(b))), "SemiringLogProbability", "plus_is_log_of_sum", [la, lb])
        r = guard(lambda: L.times(la, lb))
        chk(lambda: isinstance(r, float) and log_close(r, flog(Fraction(a) * Fraction(b))), "SemiringLogProbability", "times_is_log_of_product", [la, lb])
        chk(lambda: guard(lambda: L.plus(la, lb)) == guard(lambda: L.plus(lb, la)) or log_close(L.plus(la, lb), L.plus(lb, la)),
            "SemiringLogProbability", "plus_comm", [la, lb])
        if b > 1e-6 and a <= b:
            r = guard(lambda: L.normalize(la, lb))
            chk(lambda: isinstance(r, float) and log_close(r, flog(Fraction(a) / Fraction(b))), "SemiringLogProbability", "normalize_is_log_of_quotient", [la, lb])
    for (a, la) in zip(fl, lg):
        r = guard(lambda: L.negate(la))
        chk(lambda: isinstance(r, float) and log_close(r, flog(1 - Fraction(a))), "SemiringLogProbability", "negate_is_log_of_complement", [la])
        r = guard(lambda: L.value(ext(a)))
        chk(lambda: isinstance(r, float) and log_close(r, la), "SemiringLogProbability", "value_is_log", [a])
        chk(lambda: approx(L.result(la), a), "SemiringLogProbability", "result_is_exp", [la])
        chk(lambda: guard(lambda: L.plus(L.zero(), la)) == la and L.times(L.one(), la) == la and L.times(L.zero(), la) == L.zero(),
            "SemiringLogProbability", "identities", [la])
    sub = lg[:7] + lg[-2:]
    for la, lb, lc in itertools.product(sub, repeat=3):
        x, y = guard(lambda: L.plus(L.plus(la, lb), lc)), guard(lambda: L.plus(la, L.plus(lb, lc)))
        chk(lambda: isinstance(x, float) and isinstance(y, float) and log_close(x, y), "SemiringLogProbability", "plus_assoc", [la, lb, lc])
        x, y = guard(lambda: L.times(la, L.plus(lb, lc))), guard(lambda: L.plus(L.times(la, lb), L.times(la, lc)))
        chk(lambda: isinstance(x, float) and isinstance(y, float) and log_close(x, y), "SemiringLogProbability", "distrib", [la, lb, lc])
    # ad_complement: 1 - sum, in both semirings, for sums that stay inside [0,1]
    for n in range(ctx.budget(150, 3000)):
        ws = [Fraction(rng.choice(["0", "0.1", "0.25", "0.3", "1e-12", "0.05", "0.5", "1e-300"])) for _ in range(rng.randrange(0, 4))]
        if sum(ws) > 1:
            continue
        want = 1 - sum(ws)
        r = guard(lambda: P.ad_complement([float(w) for w in ws], key=None))
        chk(lambda: isinstance(r, float) and approx(r, float(want)), "SemiringProbability", "ad_complement", [str(w) for w in ws])
        r = guard(lambda: L.ad_complement([log_of(w) for w in ws], key=None))
        chk(lambda: isinstance(r, float) and log_close(r, flog(want)), "SemiringLogProbability", "ad_complement", [str(w) for w in ws])
    return viol


def defaults(ctx, objs, grid):
    """Documented base-class behaviour, observed through every semiring class (and a user-defined subclass)."""
    viol = []
    samples = {
        "SemiringProbability": [0.0, 1.0, 0.5, 1e-12, 0.3],
        "SemiringLogProbability": [float("-inf"), 0.0, math.log(0.5), math.log(1e-12)],
        "SemiringSymbolic": ["0", "1", "0.5", "(0.3 + 0.2)", "0.2*0.9"],
        "SemiringMPEState": [(0.0, set()), (1.0, set()), (0.5, {1, -2})],
        "SemiringMinPEState": [(0.0, set()), (1.0, set()), (0.5, {1, -2})],
        "Semiring": [0, 1, 7],
    }
    for cls, vals in samples.items():
        s = objs[cls]

        def chk(name, f):
            ctx.count("default %s" % cls)
            ctx.case(("default", cls, name))
            try:
                ok, detail = f()
            except Exception as e:
                ok, detail = False, "raises %s" % type(e).__name__
            if not ok:
                viol.append((cls, name, detail))

        chk("is_one(one())", lambda: (bool(s.is_one(s.one())), "returns %r" % (s.is_one(s.one()),)))
        chk("is_zero(zero())", lambda: (bool(s.is_zero(s.zero())), "returns %r" % (s.is_zero(s.zero()),)))
        for a in vals:
            chk("normalize(a, one())", lambda: (approx(s.normalize(a, s.one()), a), "normalize(%r, one()) = %r" % (a, s.normalize(a, s.one()))))
        chk("true()", lambda: (approx(s.true(), (s.one(), s.zero())), "true() = %r" % (s.true(),)))
        chk("false()", lambda: (approx(s.false(), (s.zero(), s.one())), "false() = %r" % (s.false(),)))
        a = vals[-1]
        chk("to_evidence", lambda: (approx(s.to_evidence(a, a, 1), (s.one(), s.zero())) and approx(s.to_evidence(a, a, -1), (s.zero(), s.one())), ""))
        chk("ad_negate", lambda: (approx(s.ad_negate(a, a), s.one()), ""))
        chk("result_one/result_zero", lambda: (approx(s.result_one(), s.result(s.one())) and approx(s.result_zero(), s.result(s.zero())), ""))
        chk("in_domain(one())", lambda: (bool(s.in_domain(s.one())) and bool(s.in_domain(s.zero())), ""))
    return viol


def replay_case(ctx, objs, rp):
    """Re-run one recorded failing case."""
    kind = rp.get("kind")
    if kind == "symbolic":
        sr = objs["SemiringSymbolic"]
        op, args = rp["op"], rp["args"]
        r = getattr(sr, op)(*args)
        vals = [exact_eval(a) for a in args]
        want = {"plus": lambda: vals[0] + vals[1], "times": lambda: vals[0] * vals[1], "negate": lambda: 1 - vals[0],
                "normalize": lambda: vals[0] / vals[1]}[op]()
        got = exact_eval(r) if isinstance(r, str) else None
        ctx.case(("replay", op, args))
        if got is None or got != want:
            ctx.fail("SemiringSymbolic.%s(%s) = %r evaluates to %s, expected %s" % (op, args, r, got, want), rp,
                     {"kind": "symbolic-homomorphism", "op": op})
    elif kind == "default":
        v = [x for x in defaults(ctx, objs, []) if x[0] == rp["class"] and x[1] == rp["default"]]
        if v:
            ctx.fail("%s: %s fails (%s)" % v[0], rp, {"kind": "default", "class": rp["class"], "default": rp["default"]})
    elif kind == "law":
        rng = ctx.sub_rng("laws")
        grid = su.prob_grid(ctx.sub_rng("grid"))
        v = [x for x in laws(ctx, objs, grid, rng) if x[0] == rp["class"] and x[1] == rp["law"]]
        if v:
            ctx.fail("%s: law %s fails for %s" % v[0], rp, {"kind": "law", "class": rp["class"], "law": rp["law"]})
    else:
        raise Infra("unknown replay kind %r" % kind)


def run(ctx):
    ctx.rule = ("a case = one execution of a semiring method (or one law instance) on grid inputs: all pairs of a grid "
                "with 0, 1, 1e-300, 1e-12, 1-1e-12, 0.5, random decimals, their logs and -inf; out-of-range values; "
                "random symbolic expression trees; non-trivial = has at least one argument")
    items, changed = su.regenerate(ctx, required_items())
    objs = objects()
    if ctx.replay_in:
        replay_case(ctx, objs, json.load(open(ctx.replay_in))["replay"])
        return ctx.finish("proof")
    ctx.proof_phase(MODULE, THEOREMS)
    drv = ctx.driver("Drivers.C12")
    grid = su.prob_grid(ctx.sub_rng("grid"))
    if drv is not None:
        correspondence(ctx, drv, objs, ctx.sub_rng("grid"))
        symbolic(ctx, drv, objs, ctx.sub_rng("symbolic"))
    else:
        ctx.obligation("correspondence: generated definitions executed against Python", False, "driver does not build")
    seen_laws = set()
    for cls, law, args in laws(ctx, objs, grid, ctx.sub_rng("laws")):
        if (cls, law) in seen_laws:
            continue
        seen_laws.add((cls, law))
        ctx.fail("%s: law %s fails for %s" % (cls, law, args), {"kind": "law", "class": cls, "law": law, "args": args},
                 {"kind": "law", "class": cls, "law": law})
    seen = set()
    for cls, name, detail in defaults(ctx, objs, grid):
        if (cls, name) in seen:
            continue
        seen.add((cls, name))
        ctx.fail("%s: documented default %s fails (%s)" % (cls, name, detail), {"kind": "default", "class": cls, "default": name},
                 {"kind": "default", "class": cls, "default": name})
    return ctx.finish("proof")
