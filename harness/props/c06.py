"""C06 — inference options do not change the answer.

Sampled option vectors from the cross product of the semantics-neutral ground/evaluate options exposed by
LogicFormula.create_from and the probability/ground CLIs, plus the evidence spellings; every run is compared with the
Lean specification `Sem` of the program."""
import random

import cfgprop
import spine

MODULE = "ProbLogProofs.Properties.C06"
THEOREMS = ["ProbLogProofs.C06.C06_spec_base"]

MANIFEST = {
    "level": "other",
    "technique": "sampled cross product of ground/evaluate options on generated programs, each run compared with the Lean "
                 "specification Sem; builder-option neutrality is the Lean theorem C11_addCompound_spec (all option records)",
    "text": "Option plumbing is tied by correspondence on sampled option vectors (partial: sampled, each run compared with "
            "the Lean specification). Lean theorems: evidence propagation (model of LogicFormula.propagate, "
            "get_evidence_value, the engine lookup and the ConstraintAD evidence branch) is sound for every processing order, "
            "terminates within the stated fuel and raises 'inconsistent' only for unsatisfiable evidence "
            "(C06_propagate_sound, _inconsistent_sound, _terminates, C06_adAddEv_sound, C06_evidence_spelling); builder "
            "options: C11_addCompound_spec for every option record.",
    "note": "Trusted: harness. `keep_all` reports failed instances with probability 0: canonicalised as unreported.",
    "design_ref": "DESIGN.md §6 C06",
}

N = [6]


def variants(P, seed):
    rng = random.Random(seed)
    out = [("default", spine.to_src(P), {})]
    for k in range(N[0]):
        g = {}
        if rng.random() < 0.5:
            g["propagate_evidence"] = True
        pw = rng.choice([None, None, "prob", "log"])
        if pw:
            g["propagate_weights"] = pw
        for opt, p in (("label_all", 0.3), ("avoid_name_clash", 0.3), ("keep_order", 0.3), ("keep_all", 0.2),
                       ("keep_duplicates", 0.2), ("hide_builtins", 0.2)):
            if rng.random() < p:
                g[opt] = True
        cfg = {"ground": g, "semiring": rng.choice([None, "prob", "log"])}
        tag = "opts#%d:" % k + ",".join(sorted(g)) + ("/" + (cfg["semiring"] or "default"))
        out.append((tag, spine.to_src(P, evidence_style=rng.choice([0, 1])), cfg))
    return out


def gen(rng, **kw):
    """The shared generator; in a third of the programs with an annotated disjunction every head of it is queried (so
    that all members of the disjunction are part of the ground program and of its mutual-exclusion constraint, which
    is what weight / evidence propagation over the constraint looks at), and half of those disjunctions are made to sum
    to exactly 1 (no "none of the heads" member)."""
    P = spine.gen_program(rng, **kw)
    if rng.random() < 0.25:
        # probabilities close to (but not) 1 and 0: weight propagation must not round them
        from fractions import Fraction as F
        idx = [i for i, st in enumerate(P["stmts"]) if st[0] == "pf"]
        rng.shuffle(idx)
        for i in idx[:rng.randint(1, 2)]:
            P["stmts"][i] = ("pf", rng.choice([F(199, 200), F(999, 1000), F(1, 200), F(995, 1000)]), P["stmts"][i][2])
    ads = [i for i, st in enumerate(P["stmts"]) if st[0] == "ad"]
    if ads and rng.random() < 0.35:
        i = rng.choice(ads)
        st = P["stmts"][i]
        heads = list(st[1])
        if rng.random() < 0.5 and len(heads) >= 2:
            rest = sum(p for p, h in heads[:-1])
            if rest < 1:
                heads[-1] = (1 - rest, heads[-1][1])
                P["stmts"][i] = ("ad", heads, st[2])
        for p, h in heads:
            q = (h[0], tuple("_" if x in spine.VARSET else x for x in h[1]))
            if q not in P["queries"]:
                P["queries"].append(q)
    return P


def run(ctx):
    # evidence propagation: Lean model of LogicFormula.propagate with soundness / termination theorems for every
    # processing order, exact correspondence with the real method (incl. the real pop order) and a truth-table oracle
    import c06_propagate
    c06_propagate.check_propagate(ctx)
    N[0] = ctx.budget(6, 24)
    ctx.rule = ("generated programs x sampled option vectors {propagate_evidence, propagate_weights, label_all, "
                "avoid_name_clash, keep_order, keep_all, keep_duplicates, hide_builtins} x {default, prob, log} semiring x "
                "evidence spelling; non-trivial = at least one query instance and more than one world")
    return cfgprop.run(ctx, MODULE, THEOREMS, variants, nq=50, nt=700, level="other", gen=gen,
                       explanation="Option vectors are sampled; each run is compared with the Lean specification value.")
