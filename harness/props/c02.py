"""C02 — programs with a cycle through negation are rejected, never answered.

Reference (Lean, `Sem`): every generated program is instantiated over its constants and classified by the specification:
  must-reject  : in some total choice of non-zero probability a query instance or evidence atom ITSELF is undefined in
                 the well-founded model (Sem.undefRootWorlds > 0) - no goal-directed pruning can avoid the loop;
  must-answer  : the full ground dependency graph has no cycle through negation (Sem.hasNegCycleFull = false);
  either       : everything else (stratified only in some worlds / only after goal-directed pruning; numbers are compared
                 only when every relevant atom is two-valued in every world).
Implementation outcome: numbers / NegativeCycle / another GroundingError / anything else.
must-reject => a GroundingError; must-answer => never NegativeCycle and the numbers of C01; either => both are fine, numbers
are compared when returned (all relevant worlds are two-valued there)."""
import semcheck
import spine
from lib import pmap

MODULE = "ProbLogProofs.Properties.C02"
THEOREMS = ["ProbLogProofs.C02.C02_spec_base"]
SEM = ("ProbLogProofs.Properties.C01Sem", ["ProbLogProofs.C01.C01_wfm_fixpoint", "ProbLogProofs.C01.C01_wfm_two_valued_definite",
                                           "ProbLogProofs.C01.C01_relevant_iff_reach"])

MANIFEST = {
    "level": "other",
    "technique": "Lean 4 well-founded-model specification (alternating fixpoint, proved to be the least fixpoint of the "
                 "squared operator with sufficient fuel) executed as the classifier for generated programs with negative loops; "
                 "the real engine's accept/reject decision and numbers are compared with the class",
    "text": "Partial: the classifier is a Lean definition with proved fixpoint properties (C01_wfm_fixpoint, two-valuedness for "
            "definite programs); the engine's cycle detector (checkCycle / EvalNot.createCycle) is not modelled, so 'rejects "
            "every must-reject program' and 'never raises NegativeCycle on a must-answer program' are explored on generated "
            "programs, not proved.",
    "note": "Trusted: the serialiser of first-order programs (instantiation is Lean's SemFO.ground); Sem. Known finding F1: false NegativeCycle on stratified programs (second sentence "
            "of the property) - reported as KNOWN-FINDING, matched by raise site + 'no negative cycle in the specification' + "
            "structural shape.",
    "design_ref": "DESIGN.md §6 C02",
}


def _work(src):
    return semcheck.run_cfg(src, {})


GROUNDING_ERRORS = {"NegativeCycle", "GroundingError", "UnknownClause", "NonGroundProbabilisticClause", "NonGroundQuery",
                    "IndirectCallCycleError", "CallModeError", "ArithmeticError", "UnboundProgramError"}


def is_grounding_error(name):
    try:
        import problog.engine as en
        import problog.engine_stack as es
        import problog.errors as pe
        for mod in (en, es, pe):
            c = getattr(mod, name, None)
            if isinstance(c, type) and issubclass(c, pe.GroundingError):
                return True
    except Exception:
        pass
    return name in GROUNDING_ERRORS


def judge(P, sem, run):
    """-> list of (what, signature)."""
    out = []
    kind, val = run
    if sem is None:
        return out
    name = val[1] if kind == "error" else None
    if name == "Timeout":
        return out
    if sem["undef_roots"] > 0:
        cls = "must-reject"
        if kind == "ok":
            out.append(("answered %s although in %d possible world(s) a query/evidence atom is undefined in the well-founded model" % (val, sem["undef_roots"]),
                        {"kind": "answered-must-reject", "poscycle_in_negcycle_scc": spine.poscycle_in_negcycle_scc(P),
                         "poscycle_clause_before_negedge": spine.negedge_after_poscycle_clause(P)}))
        elif not is_grounding_error(name) and name != "InconsistentEvidenceError":
            out.append(("raised %s at %s instead of a grounding error" % (name, val[2]),
                        {"kind": "exception", "exc": name, "site": val[2], "class": cls}))
        return out
    cls = "must-answer" if not sem["negcycle_full"] else "either"
    if cls == "either" and sem["undef"] > 0:
        return out   # some relevant (non-root) atom is undefined in some world: either outcome, numbers not compared
    if kind == "error" and name == "NegativeCycle":
        if cls == "must-answer":
            out.append(("NegativeCycle raised at %s although the ground dependency graph has no cycle through negation" % val[2],
                        {"kind": "exception", "exc": name, "site": val[2], "spec_negcycle": False,
                         "f1_shape": spine.f1_condition(P)}))
        return out
    if kind == "error" and cls == "either" and is_grounding_error(name):
        return out
    for what, sig in semcheck.compare(P, sem, run, cls):
        out.append((what, sig))
    return out


def src_of(P):
    """Program text; auxiliary predicates nnK (each defined by the single clause `nnK :- \\+G.` and used only as `\\+nnK`)
    are written as the double negation `\\+\\+G` they stand for (same well-founded semantics, and a cycle through them is
    a cycle through negation)."""
    src = spine.to_src(P)
    if not P.get("nn"):
        return src
    import re
    for name, g in P["nn"].items():
        src = "\n".join(l for l in src.split("\n") if l != "%s :- \\+%s." % (name, g))
        src = re.sub(r"\\\+%s\b" % re.escape(name), lambda m: "\\+\\+" + g, src)
    return src


def gen_prop_loops(rng):
    """Propositional programs with dense positive and negative loops: 0-ary predicates p0..pk with 1-3 clauses whose
    bodies mix p's (positive / negated, any direction) and probabilistic facts."""
    from fractions import Fraction as F
    k = rng.randint(2, 4)
    nf = rng.randint(1, 3)
    preds = {"f%d" % i: (0, 0) for i in range(nf)}
    preds.update({"p%d" % i: (0, 1) for i in range(k)})
    stmts = [("pf", F(rng.randint(1, 9), 10), ("f%d" % i, ())) for i in range(nf)]
    negp = rng.choice([0.15, 0.3, 0.5])
    for i in range(k):
        for _ in range(rng.randint(1, 3)):
            body = []
            for _ in range(rng.randint(1, 2)):
                a = (rng.choice(list(preds)), ())
                body.append(("neg" if (a[0].startswith("p") and rng.random() < negp) else "pos", a))
            stmts.append(("rule", ("p%d" % i, ()), body))
    nn = {}
    if rng.random() < 0.3:
        # double negation \+\+G (through an auxiliary predicate, see src_of)
        g = "p%d" % rng.randrange(k)
        preds["nn0"] = (0, 1)
        stmts.append(("rule", ("nn0", ()), [("neg", (g, ()))]))
        rules = [i for i, st in enumerate(stmts) if st[0] == "rule" and st[1][0].startswith("p")]
        i = rng.choice(rules)
        body = list(stmts[i][2])
        if rng.random() < 0.5 and len(body) > 1:
            body[rng.randrange(len(body))] = ("neg", ("nn0", ()))
        else:
            body.append(("neg", ("nn0", ())))
        stmts[i] = ("rule", stmts[i][1], body)
        nn["nn0"] = g
    rng.shuffle(stmts)
    qs = [("p%d" % rng.randrange(k), ())]
    P = dict(consts=["a"], preds=preds, stmts=stmts, queries=qs, evidence=[])
    if nn:
        P["nn"] = nn
    return P


def run(ctx):
    ctx.rule = ("typed random programs where negative literals may refer to predicates of the same or a higher level (negative "
                "loops of length 1-4 mixed with probabilistic facts, ADs, evidence, positive recursion; loops reachable / "
                "unreachable from the query; loops broken by deterministic facts); distinct = distinct source; non-trivial = "
                "the ground dependency graph has a cycle through negation")
    ctx.proof_phase(MODULE, THEOREMS)
    ctx.proof_phase(SEM[0], SEM[1])
    # a definite program has no undefined world in the reference: the classifier can never call it "must reject"
    ctx.proof_phase("ProbLogProofs.Properties.C01SemProb", ["ProbLogProofs.C01.C01_run_definite_no_undef"])
    drv = ctx.driver("Drivers.Spine")
    if drv is None:
        return ctx.finish("other", "driver missing")
    rng = ctx.sub_rng("programs")
    n = ctx.budget(220, 4000)
    if ctx.replay_in:
        import json
        import cfgprop
        P = json.load(open(ctx.replay_in))["replay"]["program"]
        P["stmts"] = [tuple(cfgprop._tup(s)) for s in P["stmts"]]
        P["queries"] = [tuple(cfgprop._tup(q)) for q in P["queries"]]
        P["evidence"] = [(tuple(cfgprop._tup(a)), v) for a, v in P["evidence"]]
        progs = [P]
    else:
        progs = [spine.gen_program(rng, negloops=rng.choice([0.0, 0.3, 0.6, 0.9]), max_level=rng.choice([1, 2, 2]), numeric=True) for _ in range(n)]
        progs += [gen_prop_loops(rng) for _ in range(ctx.budget(400, 6000))]
    # pinned regression corpus: must-reject programs inside the region of known finding C02-missed-negative-cycle that the
    # tree rejected when the corpus was built (tools/gen_c02_corpus.py); an answer here is a regression, never "known"
    import json
    import os
    from lib import VERIF
    cpath = os.path.join(VERIF, "corpus", "C02", "must_reject.json")
    if os.path.exists(cpath) and not ctx.replay_in:
        corpus = json.load(open(cpath))
        cres = pmap(_work, corpus)
        # a pinned program that ran out of time (loaded machine) is run again, alone, with a long limit
        cres = [semcheck.run_cfg(src, {}, timeout=120) if (r[0] == "error" and r[1][1] == "Timeout") else r
                for src, r in zip(corpus, cres)]
        nrej = 0
        for src, r in zip(corpus, cres):
            ctx.case("corpus:" + src, nontrivial=True)
            if r[0] == "ok":
                ctx.fail("corpus program with a cycle through negation is now ANSWERED %s (it was rejected when the corpus was "
                         "built) | program: %s" % (r[1], src.replace("\n", " ")), {"src": src, "corpus": True},
                         {"kind": "corpus-regression"})
                break
            elif r[1][1] != "Timeout":
                nrej += 1
        ctx.count("corpus must-reject programs still rejected", nrej)
    sems = semcheck.spec_batch(drv, progs)
    runs = pmap(_work, [src_of(P) for P in progs])
    nshrunk = 0
    for P, sem, r in zip(progs, sems, runs):
        src = src_of(P)
        if sem is None:
            ctx.count("skipped(too many worlds)")
            continue
        cls = "must-reject" if sem["undef_roots"] > 0 else ("must-answer" if not sem["negcycle_full"] else "either")
        ctx.case(src, nontrivial=sem["negcycle_full"])
        ctx.count("class:" + cls)
        ctx.count("outcome:" + ("numbers" if r[0] == "ok" else r[1][1]))
        ctx.count("%s -> %s" % (cls, "numbers" if r[0] == "ok" else r[1][1]))
        if len(ctx.samples) < 4 and sem["negcycle_full"]:
            ctx.sample({"src": src, "class": cls, "outcome": "numbers" if r[0] == "ok" else r[1][1]})
        for what, sig in judge(P, sem, r):
            small = P
            if nshrunk < 2 and ctx.known_match(sig) is None:
                import props.c01 as c01

                def still(c, sig=sig):
                    s2 = semcheck.spec_batch(drv, [c])[0]
                    r2 = _work(src_of(c))
                    return any(semcheck.same_failure(s, sig) for _, s in judge(c, s2, r2))
                try:
                    small = c01.shrink_program(P, still)
                except Exception:
                    small = P
                nshrunk += 1
            ctx.fail(what + " | program: " + src_of(small).replace("\n", " "), {"program": small, "src": src_of(small)}, sig)
            break
    return ctx.finish("other", "Lean classifier (well-founded model) executed on every generated program; engine outcome compared "
                               "with the class. The engine's detector is not modelled: explored, not proved.")
