"""C27 -- user errors surface as ProbLog errors, never as crashes.

Lean side: a theorem about the parser's fold model only (supplied separately).  Everything else is systematic
exploration of the real code with full classification of outcomes:
  (a) every registered builtin x random argument shapes x calling contexts,
  (b) structured user errors (syntax, undefined predicates, non-ground probabilistic clauses, invalid
      probabilities, evidence, queries, arithmetic, redefinitions, directives, cycles),
  (c) token-level mutation of the repository's test programs and of the generated programs, at inference level.
Every program runs in an isolated worker subprocess (harness/c27_util.py) under a timeout; outcome classes:
result / ProbLogError subclass (both fine) / resource (RecursionError, MemoryError, timeout: counted only) /
any other exception = property failure, identified by (exception type, innermost problog frame: function + statement).
"""
import json
import os
import re
import shutil
import tempfile
import threading
import time

import lib
from lib import Infra
import c27_util as U

MODULE = "ProbLogProofs.Properties.C27"
THEOREMS = [
    "ProbLogProofs.C27.C27_parser_no_internal_partial",
    "ProbLogProofs.C27.C27_label_no_internal",
    "ProbLogProofs.C27.C27_factory_no_internal",
    "ProbLogProofs.C27.C27_parser_no_internal_refuted",
]

EXPLANATION = (
    "The Lean theorem covers only the parser fold model (no internal exception escapes the modelled token fold). "
    "The property itself ranges over the whole system (parser, clause database, engine, builtins, formula, compiler, "
    "evaluator, CLI); for that part the check is a systematic exploration of the real code: every registered builtin "
    "with random argument shapes in several calling contexts, a catalogue of structured user errors, and token-level "
    "mutants of corpus and generated programs, each run through get_evaluatable().create_from().evaluate() (and a "
    "sample through the `problog` probability task) in isolated subprocesses, with every outcome classified. "
    "Any exception that is not a ProbLogError subclass is a property failure identified by (type, raise site).")

MANIFEST = {
    "level": "other",
    "technique": "Lean 4 theorem for the parser fold model + exhaustive-over-builtins / randomized exploration of the "
                 "real implementation with outcome classification and crash-site signatures (subprocess isolated)",
    "text": "Theorem only for the parser fold model. Systematic exploration for the rest: every builtin registered in "
            "DefaultEngine (enumerated from the engine's builtin table on every run) is called with random argument "
            "shapes (unbound, int, negative, float, atom, quoted atom, string, list, partial list, compound, goal, "
            "wrong arity) directly, negated, under findall/forall/call/N/subquery/once, as directive, query, evidence; "
            "plus structured user errors and token-level mutants of test/*.pl. Outcomes must be a result or a "
            "ProbLogError subclass; anything else is reported with a shrunk program and a (kind, site) signature.",
    "note": "level=other: the Lean theorem covers only the parser fold model; the property ranges over the whole system "
            "(parser, clause database, engine, builtins, formula, compiler, evaluator, CLI) and for that part the check "
            "is an exploration of the real code with complete outcome classification, not a proof. Failures are "
            "identified by (exception type, innermost problog frame: function + statement text); known crash sites are "
            "listed in known/C27.json, any other site is a VIOLATION. Not reported as failures (counted in the "
            "evidence): RecursionError / MemoryError (limits set by the harness), timeouts (4 s per case), worker "
            "deaths, crashes that do not reproduce on re-run. No builtin is excluded by "
            "name; side effects are neutralised instead: workers run in a private temp directory (removed afterwards) "
            "with stdin/stdout/stderr on /dev/null, file-name arguments of consult/use_module/'.'/2 come from a fixed "
            "alphabet of atoms that name no file (only library(lists|apply|...) resolve), library(db) and "
            "library(nlp4plp) are never loaded by generated programs.",
    "design_ref": "DESIGN.md §6 C27",
}

# ============================================================================================ rendering helpers
INFIX = {"=", "\\=", "==", "\\==", "is", "<", ">", "=<", ">=", "=:=", "=\\=", "@<", "@>", "@=<", "@>=", "=.."}
PLAIN = re.compile(r"^[a-z][A-Za-z0-9_]*$")
PREAMBLE = "0.5::f(1). 0.5::f(2). 0.3::g(a). h(1,2). h(a,[1,2]).\n"
LIBS = ["lists", "apply", "aggregate", "string", "cut", "control", "collect", "assert", "record", "scope", "nolib"]


def fname(name):
    return name if PLAIN.match(name) else "'%s'" % name.replace("\\", "\\\\").replace("'", "\\'")


def render_call(name, args, rng=None):
    n = len(args)
    if name == "." and n == 2:
        return "[%s|%s]" % (args[0], args[1])
    if name in INFIX and n == 2 and (rng is None or rng.random() < 0.7):
        return "%s %s %s" % (args[0], name, args[1])
    if n == 0:
        return fname(name)
    return "%s(%s)" % (fname(name), ",".join(args))


class ArgGen:
    """Random argument shapes.  `bound` = variable names bound by the context (may be reused)."""

    def __init__(self, rng, bound=()):
        self.rng = rng
        self.bound = list(bound)
        self.nv = 0
        self.used = set()
        self.shapes = []

    def fresh(self):
        self.nv += 1
        return "V%d" % self.nv

    def atom(self):
        return self.rng.choice(["a", "b", "foo", "f", "g", "[]", "true", "fail", "nil", "'hello world'", "''", "'A'",
                                "'it''s'", "library", "h"])

    def num(self):
        r = self.rng.random()
        if r < 0.45:
            return str(self.rng.choice([0, 1, 2, 3, 7]))
        if r < 0.6:
            return str(self.rng.choice([-1, -2, -7]))
        if r < 0.85:
            return self.rng.choice(["0.5", "2.0", "-2.5", "1.0e10", "0.0", "3.14"])
        return self.rng.choice(["100000000000000000000", "1.0e400", "inf", "nan"])

    def goal(self, depth=0):
        r = self.rng.random()
        v = self.var()
        if r < 0.3:
            return self.rng.choice(["f(%s)" % v, "f(1)", "g(%s)" % v, "h(%s,%s)" % (v, self.var()), "f(3)"])
        if r < 0.45:
            return self.rng.choice(["true", "fail", "undefined_pred", "undefined_pred(%s)" % v, "q", "f", "f(1,2)"])
        if r < 0.6 and depth < 2:
            return "(%s%s%s)" % (self.goal(depth + 1), self.rng.choice([",", ";", ", \\+"]), self.goal(depth + 1))
        if r < 0.7 and depth < 2:
            return "\\+%s" % self.goal(depth + 1)
        if r < 0.8 and depth < 2:
            return self.rng.choice(["call(%s)", "once(%s)", "findall(%s,%%s,%s)" % (v, self.var()),
                                    "call(%s,1)", "subquery(%s,P_)"]) % self.goal(depth + 1)
        if r < 0.9:
            return self.rng.choice(["%s = %s" % (v, self.atom()), "%s is 1+1" % v, "%s < 3" % v, "1 < 2",
                                    "between(1,3,%s)" % v, "length(%s,2)" % v, "%s =.. [f,1]" % v])
        return self.rng.choice([v, "3", "\"str\"", "[f(1)]", "0.5::a", "(a:-b)", "f(1):g", "'f(1)'"])

    def var(self):
        if self.bound and self.rng.random() < 0.5:
            v = self.rng.choice(self.bound)
            self.used.add(v)
            return v
        return self.rng.choice([self.fresh(), "_"]) if self.rng.random() < 0.8 else "V1"

    def arg(self, depth=0, hint=None):
        shape = hint or self.rng.choice(
            ["var", "var", "bound", "int", "num", "atom", "atom", "string", "list", "list", "plist", "compound",
             "compound", "goal", "goal", "expr", "lib", "weird"])
        self.shapes.append(shape)
        r = self.rng
        if shape == "var":
            return self.rng.choice([self.fresh(), "_"])
        if shape == "bound":
            return self.var()
        if shape == "int":
            return str(r.choice([0, 1, 2, 3, -1, 10]))
        if shape == "num":
            return self.num()
        if shape == "atom":
            return self.atom()
        if shape == "string":
            return r.choice(['"abc"', '""', '"f(X)"', '"12"', '"a b"'])
        if shape == "list":
            k = r.choice([0, 1, 2, 3, 3])
            if depth >= 2:
                return r.choice(["[]", "[1,2]", "[a]"])
            return "[%s]" % ",".join(self.arg(depth + 1, r.choice(["int", "atom", "var", "compound", "list", "num", "goal"]))
                                     for _ in range(k))
        if shape == "plist":
            return r.choice(["[a|%s]" % self.var(), "[1,2|%s]" % self.fresh(), "[a|b]", "[%s|%s]" % (self.var(), self.var()),
                             "[f(1)|_]", "[a,b|[c|%s]]" % self.var()])
        if shape == "compound":
            if depth >= 2:
                return r.choice(["g(1)", "k(a,b)", "f(%s)" % self.var()])
            k = r.choice([1, 1, 2, 3])
            return "%s(%s)" % (r.choice(["g", "k", "f", "h", "s", "'my f'"]),
                               ",".join(self.arg(depth + 1) for _ in range(k)))
        if shape == "goal":
            return self.goal(depth)
        if shape == "expr":
            a, b = self.arg(depth + 2, r.choice(["int", "num", "var", "bound", "atom"])), self.arg(
                depth + 2, r.choice(["int", "num", "var", "atom", "expr" if depth < 1 else "int"]))
            return r.choice(["(%s+%s)", "(%s-%s)", "(%s*%s)", "(%s/%s)", "(%s//%s)", "(%s mod %s)", "(%s**%s)",
                             "min(%s,%s)", "(%s<<%s)", "(%s,%s)", "(%s;%s)", "(%s:-%s)", "(%s-%s)", "(%s=%s)",
                             "(%s::%s)", "(%s:%s)"]) % (a, b) if r.random() < 0.8 else r.choice(
                ["-(%s)", "abs(%s)", "sqrt(%s)", "\\+%s", "\\%s", "exp(%s)", "integer(%s)", "-%s"]) % a
        if shape == "lib":
            return r.choice(["library(%s)" % r.choice(LIBS), "library(%s)" % self.arg(depth + 2, "var"),
                             "library(3)", "library", "library(lists,x)", "'lists'", "'no such file.pl'"])
        # weird
        return r.choice(["{a}", "{}", "'$VAR'(1)", "'$VAR'(%s)" % self.var(), "'.'(a,b)", "'[|]'(a,b)", "f( )",
                         "a:b", "a:b:c", "-a", "- 1", "1e5", "0'a", "0x1F", "0b101", "\"\\x41\\\"",
                         "t(_)", "t(0.5)", "t(a,b)", "p::a", "(a,b,c)", "(a->b;c)", "[a,b|c]", "[[]]", "[[[]|_]]",
                         "'\\n'", "f(A_,A_)", "_G1", "__"])


# hints for the argument positions of some builtins: a list of per-position hints; None = any
HINTS = {
    "findall/3": [[None, "goal", None]], "all/3": [[None, "goal", None]], "all_or_none/3": [[None, "goal", None]],
    "call/1": [["goal"]], "once/1": [["goal"]], "call_nc/1": [["goal"]], "try_call/1": [["goal"]],
    "subquery/2": [["goal", None]], "subquery/3": [["goal", None, "list"]], "subquery/5": [["goal", None, "list", "atom", "atom"]],
    "between/3": [["int", "int", None]], "succ/2": [["int", None], [None, "int"]], "plus/3": [["int", "int", None]],
    "length/2": [["list", None], [None, "int"], ["plist", None]], "sort/2": [["list", None]],
    "functor/3": [["compound", None, None], ["var", "atom", "int"]], "arg/3": [["int", "compound", None]],
    "=../2": [["compound", None], ["var", "list"]], "is/2": [[None, "expr"]],
    "clause/2": [["goal", None]], "clause/3": [["goal", None, None]], "possible/1": [["goal"]],
    "consult/1": [["atom"], ["lib"]], "use_module/1": [["lib"]], "use_module/2": [["lib", "list"]],
    "_use_module/2": [["atom", "lib"]], "_use_module/3": [["atom", "lib", "list"]], "_consult/2": [["atom", "atom"]],
    "./2": [["atom", "list"], ["lib", "list"]], "atom_number/2": [["atom", None], [None, "num"]],
    "numbervars/2": [["compound", None]], "numbervars/3": [["compound", "int", None]], "varnumbers/2": [["compound", None]],
    "nocache/2": [["atom", "int"]], "create_scope/2": [["goal", None], ["list", None]], "find_scope/2": [["goal", None]],
    "call_in_scope/2": [["goal", None]], "subquery_in_scope/3": [[None, "goal", None]],
    "sample_uniform1/3": [["atom", "list", None]], "compare/3": [[None, None, None]], "cmd_args/1": [["var"]],
    "set_state/1": [["compound"]], "check_state/1": [["compound"]], "condition/1": [["goal"]], "seq/1": [["var"]],
    "unknown/1": [["atom"]], "module/2": [["atom", "list"]],
}
for _op in ("<", ">", "=<", ">=", "=:=", "=\\="):
    # arithmetic comparisons: the other operand is a number, so that the probed operand reaches the comparison itself
    HINTS["%s/2" % _op] = [["num", "num"], ["int", "num"]]
for _i in range(2, 10):
    HINTS["call/%d" % _i] = [["goal"] + [None] * (_i - 1)]
    HINTS["call_nc/%d" % _i] = [["goal"] + [None] * (_i - 1)]
    HINTS["try_call/%d" % _i] = [["goal"] + [None] * (_i - 1)]
    HINTS["call_in_scope/%d" % (_i + 1)] = [["goal"] + [None] * _i]


def gen_call(rng, name, arity, bound):
    g = ArgGen(rng, bound)
    hints = None
    hs = HINTS.get("%s/%d" % (name, arity))
    if hs and rng.random() < 0.6:
        hints = rng.choice(hs)
    args = []
    for i in range(arity):
        h = hints[i] if hints and i < len(hints) else None
        if h is not None and rng.random() < 0.15:
            h = None
        args.append(g.arg(0, h))
    return render_call(name, args, rng), g


CORE_SHAPES = ["var", "string", "atom", "int", "num", "list", "plist", "compound", "goal"]


def gen_systematic(rng, name, arity):
    """For every argument position and every core shape: that position gets the shape, the other positions get
    plausible values (the builtin's hint if there is one, else random)."""
    hs = HINTS.get("%s/%d" % (name, arity))
    out = []
    for pos in range(arity):
        for shape in CORE_SHAPES:
            g = ArgGen(rng, [])
            hints = rng.choice(hs) if hs else [None] * arity
            args = []
            for i in range(arity):
                h = shape if i == pos else (hints[i] if i < len(hints) else None)
                args.append(g.arg(0, h))
            call = render_call(name, args, rng)
            r = rng.random()
            if r < 0.6:
                body = "q :- %s.\nquery(q)." % call
            elif r < 0.8:
                body = "query(%s)." % call
            else:
                body = "q :- f(X), %s.\nquery(q)." % call
            out.append(PREAMBLE + body)
    return out


CONTEXTS = ["plain", "plain", "after_f", "after_f", "neg", "findall", "call", "calln", "head_var", "directive", "query",
            "evidence", "forall", "prob_var", "subquery", "once", "conj", "disj", "prob_rule", "two", "try_call", "neg_after"]


def gen_builtin_program(rng, builtins, name, arity, wrong_arity=False):
    ctxname = rng.choice(CONTEXTS)
    if wrong_arity:
        arity = max(0, arity + rng.choice([-1, 1]))
    bound = {"after_f": ["X"], "head_var": ["X"], "forall": ["X"], "prob_var": ["P"], "prob_rule": ["X"],
             "neg_after": ["X"], "two": ["X", "Y"], "findall": ["Z"]}.get(ctxname, [])
    call, g = gen_call(rng, name, arity, bound)
    pre = PREAMBLE
    if ctxname == "plain":
        body = "q :- %s.\nquery(q)." % call
    elif ctxname == "after_f":
        body = "q :- f(X), %s.\nquery(q)." % call
    elif ctxname == "neg":
        body = "q :- \\+ %s.\nquery(q)." % call
    elif ctxname == "neg_after":
        body = "q :- f(X), \\+ %s.\nquery(q)." % call
    elif ctxname == "findall":
        body = "q :- findall(Z, %s, L).\nquery(q)." % call
    elif ctxname == "call":
        body = "q :- call(%s).\nquery(q)." % call
    elif ctxname == "calln":
        # split the call into a partial goal + extra arguments for call/N
        g2 = ArgGen(rng, bound)
        args = [g2.arg(0) for _ in range(arity)]
        k = rng.randrange(0, arity + 1)
        head = render_call(name, args[:k]) if k or arity == 0 else fname(name)
        if name in INFIX or name == ".":
            head = "%s(%s)" % (fname(name), ",".join(args[:k])) if k else fname(name)
        body = "q :- call(%s).\nquery(q)." % ",".join([head] + args[k:])
        call = body
    elif ctxname == "head_var":
        body = "q(X) :- %s.\nquery(q(_))." % call
    elif ctxname == "directive":
        body = ":- %s.\nquery(f(_))." % call
    elif ctxname == "query":
        body = "query(%s)." % call
    elif ctxname == "evidence":
        body = "evidence(%s%s).\nquery(f(1))." % (rng.choice(["", "\\+"]), call)
    elif ctxname == "forall":
        pre = ":- use_module(library(lists)).\n" + pre
        body = "q :- forall(f(X), %s).\nquery(q)." % call
    elif ctxname == "prob_var":
        body = "P::q :- %s.\nquery(q)." % call
    elif ctxname == "subquery":
        body = "q :- subquery(%s, P).\nquery(q)." % call
    elif ctxname == "once":
        body = "q :- %s(%s).\nquery(q)." % (rng.choice(["once", "call_nc", "call"]), call)
    elif ctxname == "try_call":
        body = "q :- try_call(%s).\nquery(q)." % call
    elif ctxname == "conj":
        body = "q :- %s, f(X).\nquery(q)." % call
    elif ctxname == "disj":
        body = "q :- (%s ; f(1)).\nquery(q)." % call
    elif ctxname == "prob_rule":
        body = "0.4::r(X) :- %s.\nquery(r(_))." % call
    else:  # two builtins sharing variables
        sig2 = rng.choice(builtins)
        call2, _ = gen_call(rng, sig2[0], sig2[1], ["X", "Y"])
        body = "q :- %s, %s.\nquery(q)." % (call, call2)
    return pre + body, ctxname, g.shapes


# ============================================================================================ (b) structured user errors
STRUCTURED = [
    # --- malformed syntax
    "a :- b(.", "a :- b)).", "a :- [b, c.", "a :- 'unterminated.", "a :- \"unterminated.", "a :- b,, c.", "a :- .",
    ":- .", ".", "..", "a. . b.", "a :- b c.", "a b.", "0.5::.", "::a.", "0.5:: :- a.", "a :- b :- c.", "a :- (b.",
    "a :- b].", "a(.", "a(,).", "a(b,).", "f(a)(b).", "a :- \\+.", "a :- \\+ \\+.", "a ; ; b.", "0.5::a ; .", "query().",
    "query(a) :- .", "a :- b. query(a", "a. /* unterminated comment", "a. % comment only", "", "   \n\n", "%", "a",
    "a :- X is 1 +.", "a :- X is * 2.", "a :- 1 2.", "A.", "_.", "a :- B.", "X :- a.", "3 :- a.", "[a] :- b.", "\"s\" :- b.",
    "a :- b. :- c :- d.", "(a,b).", "(a;b) :- c.", "(a:-b) :- c.", "\\+a.", "\\+a :- b.", "0.5::\\+a.", "a:-b:-c.",
    "{a}.", "a :- {b}.", "f(X) :- X = {a,b}. query(f(_)).", "a <- b.", "0.3::a <- b. b. query(a).", "a. query(a). }",
    "a :- b, . query(a).", "a(1). a(2) query(a(_)).", "a :- 0'. query(a).", "a(0'a). query(a(_)).", "a(0x). query(a(_)).",
    "a(1.). query(a(_)).", "a(1.e5). query(a(_)).", "a(1e). query(a(_)).", "a(.5). query(a(_)).", "a(1.0e400). query(a(_)).",
    "a('\\q'). query(a(_)).", "a(\"\\x\"). query(a(_)).", "p(X) :- X = 'a\nb'. query(p(_)).", "\x00a.", "a\x01b.",
    "é. query(é).", "a :- b. \ufeff", "a:-b.c:-d.query(a).", "a:- b.c. query(a).", "query(a.b).", "0.5::a.b. query(a).",
    # --- undefined predicates
    "q :- undefined. query(q).", "q :- undefined(1,2). query(q).", "query(undefined).", "query(undefined(_)).",
    "evidence(undefined). query(q). q.", "q :- \\+undefined. query(q).", "q :- findall(X, undefined(X), L). query(q).",
    "q :- call(undefined). query(q).", "q :- call(undefined, 1). query(q).", ":- undefined.", "q :- f(1). f(1,2). query(q).",
    ":- use_module(library(lists)). q :- member(X,[1,2]), undefined(X). query(q).",
    ":- use_module(library(lists)). q :- memberx(X,[1,2]). query(q).", ":- use_module(library(nolib)). q. query(q).",
    ":- use_module(nolib). q. query(q).", ":- use_module('nofile.pl'). q. query(q).", ":- use_module('nofile.py'). q. query(q).",
    ":- consult(nofile). q. query(q).", ":- consult('nofile.pl'). q. query(q).", ":- [nofile]. q. query(q).",
    ":- use_module(library(lists), [nopred/1]). q. query(q).", ":- use_module(library(lists), [member/2]). q :- member(1,[1]). query(q).",
    ":- use_module(library(lists), member). q. query(q).", ":- use_module(library(lists), [member]). q. query(q).",
    ":- use_module(library(lists), [member/a]). q. query(q).", ":- use_module(library(lists), except([member/2])). q. query(q).",
    ":- use_module(library(lists), except(member)). q. query(q).", ":- use_module(library(lists), [member/2 as mem]). q :- mem(1,[1]). query(q).",
    ":- use_module(library(lists), [member/2 as 3]). q. query(q).", ":- use_module(library(lists), X). q. query(q).",
    ":- use_module(X). q. query(q).", ":- use_module(library(X)). q. query(q).", ":- use_module(3). q. query(q).",
    ":- use_module(\"lists\"). q. query(q).", ":- use_module([lists]). q. query(q).", ":- use_module(library(lists,apply)). q. query(q).",
    ":- use_module(library). q. query(q).", ":- use_module(library(3)). q. query(q).", ":- use_module(f(lists)). q. query(q).",
    ":- consult(X). q. query(q).", ":- consult(3). q. query(q).", ":- consult(library(lists)). q. query(q).", ":- consult([]). q. query(q).",
    ":- consult([a|b]). q. query(q).", ":- [X]. q. query(q).", ":- [a|T]. q. query(q).", ":- [library(lists)]. q :- member(1,[1]). query(q).",
    ":- unknown(fail). q :- undefined. query(q).", ":- unknown(error). q :- undefined. query(q).", ":- unknown(X). q. query(q).",
    ":- unknown(3). q :- undefined. query(q).", ":- unknown(f(x)). q :- undefined. query(q).", "q :- lists:member(1,[1]). query(q).",
    "q :- nomodule:p(1). query(q).", "q :- a:b:c. query(q).", "q :- X:p(1). query(q).", "q :- 3:p. query(q).", "a:p. q :- a:p. query(q).",
    "a:p. query(a:p).", "0.5::a:p. query(a:p).", "query(a:X).", "query(X:a).", "evidence(a:p). q. query(q).",
    # --- non-ground probabilistic facts / clauses
    "0.5::p(X). query(p(1)).", "0.5::p(X). query(p(_)).", "0.5::p(X). q :- p(Y). query(q).", "0.5::p(X,Y). query(p(1,_)).",
    "0.5::p(X) :- true. query(p(_)).", "P::a :- b(P). b(X). query(a).", "P::a :- b(P). b(0.3). b(foo). query(a).", "P::a. query(a).",
    "P::a(P). query(a(_)).", "P::a(P). query(a(0.3)).", "P::a(P). query(a(foo)).", "P::a(X) :- b(X). b(1). query(a(_)).",
    "X::a; Y::b. query(a).", "0.5::a(X); 0.5::b(X). query(a(_)).", "0.5::a(X); 0.5::b(Y) :- c(X). c(1). query(b(_)).",
    "0.5::p(X) :- q(Y). q(1). query(p(_)).", "0.5::p([X|T]). query(p([1,2])).", "0.5::p(f(X)). query(p(f(g(_)))).",
    "0.5::p(_). query(p(a)). query(p(b)).", "t(_)::a. query(a).", "t(0.5)::a. query(a).", "t(X)::a(X). query(a(1)).",
    "t(_,x)::a. query(a).", "t(foo)::a. query(a).", "t()::a. query(a).",
    # --- invalid probabilities
    "1.5::a. query(a).", "-0.2::a. query(a).", "a::b. query(b).", "\"x\"::a. query(a).", "0.5::a; 0.6::a. query(a).",
    "0.5::a; 0.6::b. query(a). query(b).", "0.5::a; 0.6::b. query(a).", "0.7::a; 0.7::b; 0.7::c. query(b). query(c).", "2::a. query(a).",
    "0::a. query(a).", "1::a. query(a).", "0.0::a. query(a).", "1.0::a. evidence(\\+a). query(a).", "1.0e400::a. query(a).", "inf::a. query(a).",
    "nan::a. query(a).", "(1/0)::a. query(a).", "(1/2)::a. query(a).", "(0.2+0.9)::a. query(a).", "(foo+1)::a. query(a).", "f(x)::a. query(a).",
    "[0.5]::a. query(a).", "[]::a. query(a).", "(0.5::a)::b. query(b).", "0.5::0.5::a. query(a).", "0.5::(a,b). query(a).", "0.5::(a;b). query(a).",
    "0.5::(a:-b). query(a).", "0.5::[a]. query(a).", "0.5::3. query(a).", "0.5::\"a\". query(a).", "0.5::X. query(a).", "0.5::a(1,). query(a(_)).",
    "0.5::true. query(true).", "0.5::fail. query(fail).", "0.5::(X is 1). query(a).", "0.5::is(X,1). query(is(_,1)).", "0.5::query(a). a.",
    "0.5::evidence(a). a. query(a).", "0.5::a :- 0.5::b. query(a).", "a :- 0.5::b. query(a).", "0.5::a. 0.6::a. query(a).", "-1::a; 2::b. query(a). query(b).",
    "0.5::a; foo::b. query(a). query(b).", "0.5::a; X::b. query(b).", "P::a :- P is 1+1. query(a).", "P::a :- P is 0-1. query(a).", "P::a :- P = foo. query(a).",
    "P::a :- P = [1]. query(a).", "P::a :- P = \"x\". query(a).", "P::a :- P = 1/2. query(a).", "P::a :- P = 1/0. query(a).", "P::a :- P = x+1. query(a).",
    "P::a :- P = Q. query(a).", "P::a :- P = f(Q). query(a).", "P::a; Q::b :- P = 0.7, Q = 0.7. query(a). query(b).", "0.5::a. evidence(a, maybe). query(a).",
    "1.5::a. b :- a. evidence(b). query(a).", "0.5::a. b :- a. b :- \\+a. evidence(\\+b). query(a).",
    # --- evidence
    "0.5::a. evidence(b). query(a).", "0.5::a(1). evidence(a(X)). query(a(1)).", "0.5::a(1). 0.5::a(2). evidence(a(_)). query(a(1)).",
    "0.5::a. evidence(a). evidence(\\+a). query(a).", "0.5::a. evidence(a, true). evidence(a, false). query(a).", "0.5::a. evidence(\\+a, true). query(a).",
    "0.5::a. evidence(a, X). query(a).", "0.5::a. evidence(a, 3). query(a).", "0.5::a. evidence(X). query(a).", "0.5::a. evidence(3). query(a).",
    "0.5::a. evidence([a]). query(a).", "0.5::a. evidence(\"a\"). query(a).", "0.5::a. evidence((a,b)). b. query(a).", "0.5::a. evidence((a;b)). b. query(a).",
    "0.5::a. evidence(\\+ \\+a). query(a).", "0.5::a. evidence(a,true,x). query(a).", "0.5::a. evidence. query(a).", "0.5::a. evidence(). query(a).",
    "a. evidence(\\+a). query(a).", "evidence(\\+a). query(a).", "0.5::a. b :- a. evidence(b). evidence(\\+a). query(a).", "0.5::a. evidence(a) :- a. query(a).",
    "0.5::a. evidence(a) :- b. query(a).", "0.5::a. evidence(X) :- X = a. query(a).", "0.5::a. evidence(X,true) :- X = 3. query(a).", "0.5::a. 0.5::evidence(a). query(a).",
    "0.5::a. evidence(a, T) :- T = true. query(a).", "0.5::a. evidence(a, T) :- T = maybe. query(a).", "0.3::a; 0.6::b. evidence(a). evidence(b). query(a).",
    "0.5::a. evidence(\\+X). query(a).", "0.5::a. evidence(\\+3). query(a).", "0.5::a. evidence(\\+b). query(a).", "0.5::a. evidence(a:b). query(a).",
    # --- queries
    "query(X).", "query(3).", "query([a]).", "query([]).", "query(\"a\").", "query(1.5).", "query((a,b)). a. b.", "query((a;b)). a. b.", "query(\\+a). a.",
    "query(\\+a). 0.5::a.", "query(\\+X).", "a. query(a, b).", "a. query.", "a. query().", "a. query(a) :- b.", "a. query(X) :- X = a.", "a. query(X) :- X = 3.",
    "a. query(X) :- X = [a].", "a. query(X) :- fail.", "a. query(X) :- undefined(X).", "a. 0.5::query(a).", "a(1). query(a(X), X).", "query(query(a)). a.",
    "query(evidence(a)). a.", "query(a :- b).", "query(0.5::a).", "0.5::a. query(a). query(a). query(a).", "0.5::a(1). query(a(X)) :- X is foo.", "query(f(X,X)). f(1,2).",
    "f(X). query(f(_)).", "f(X,X). query(f(1,_)).", "f(X,Y). query(f(A,B)).", "f([X|T]). query(f(_)).", "f(X) :- g(Y). g(1). query(f(_)).", "f(X) :- \\+g(X). g(1). query(f(_)).",
    "query(true).", "query(fail).", "query(!).", "query(call(X)).", "query(call(true)).", "query(findall(X,f(X),L)). f(1).", "query(X is 1+1).", "query(1 < 2).",
    "query(write(x)).", "query(nl).", "query(X = Y).", "query(a = a).", "query(between(1,3,X)).", "query(length(L,2)).", "query(length(L,N)).",
    # --- arithmetic
    "q :- X is foo+1. query(q).", "q :- X is Y+1. query(q).", "q :- X is 1/0. query(q).", "q :- X is 1 mod 0. query(q).", "q :- X is 1//0. query(q).",
    "q :- X is 1.0/0. query(q).", "q :- X is 1.0/0.0. query(q).", "q :- X is 0.0/0.0. query(q).", "q :- X is 2**10000. query(q).", "q :- X is 2.0**10000. query(q).",
    "q :- X is 10.0**400. query(q).", "q :- X is exp(1000). query(q).", "q :- X is log(0). query(q).", "q :- X is log(-1). query(q).", "q :- X is sqrt(-1). query(q).",
    "q :- X is acos(2). query(q).", "q :- X is 1 << -1. query(q).", "q :- X is 1 << 1.5. query(q).", "q :- X is 1 << 100000. query(q).", "q :- X is 1.5 mod 2. query(q).",
    "q :- X is 1 rem 0. query(q).", "q :- X is 7 rem 2.5. query(q).", "q :- X is min(a,1). query(q).", "q :- X is max(1). query(q).", "q :- X is abs(a). query(q).",
    "q :- X is abs(1,2). query(q).", "q :- X is foo. query(q).", "q :- X is foo(1). query(q).", "q :- X is [1]. query(q).", "q :- X is [1,2]. query(q).", "q :- X is []. query(q).",
    "q :- X is \"1\". query(q).", "q :- X is \"a\"+1. query(q).", "q :- X is '1'+1. query(q).", "q :- X is pi. query(q).", "q :- X is e. query(q).", "q :- X is pi(1). query(q).",
    "q :- X is random. query(q).", "q :- X is cputime. query(q).", "q :- X is inf. query(q).", "q :- X is nan. query(q).", "q :- X is inf-inf. query(q).", "q :- X is integer(inf). query(q).",
    "q :- X is integer(nan). query(q).", "q :- X is round(inf). query(q).", "q :- X is ceiling(inf). query(q).", "q :- X is floor(nan). query(q).", "q :- X is truncate(1.0e400). query(q).",
    "q :- X is integer(a). query(q).", "q :- X is float(a). query(q).", "q :- X is sign(a). query(q).", "q :- X is gcd(1.5,2). query(q).", "q :- X is gcd(0,0). query(q).",
    "q :- X is 1 /\\ 1.5. query(q).", "q :- X is 1 \\/ a. query(q).", "q :- X is \\ 1.5. query(q).", "q :- X is \\ a. query(q).", "q :- X is 1 xor 1.5. query(q).", "q :- X is -a. query(q).",
    "q :- X is - - 1. query(q).", "q :- X is +1. query(q).", "q :- X is 1 + . query(q).", "q :- X is (1,2). query(q).", "q :- X is (1;2). query(q).", "q :- X is f(Y). query(q).",
    "q :- X is X+1. query(q).", "q :- 1 is X. query(q).", "q :- foo is 1. query(q).", "q :- 2 is 1+1. query(q).", "q :- 2.0 is 1+1. query(q).", "q :- [X] is 1. query(q).",
    "q :- X < 1. query(q).", "q :- a < 1. query(q).", "q :- 1 < a. query(q).", "q :- 1 =:= a. query(q).", "q :- X =:= Y. query(q).", "q :- 1 =\\= \"1\". query(q).", "q :- [1] >= [0]. query(q).",
    "q :- 1/0 < 1. query(q).", "q :- f(X) =< g(Y). query(q).", "q :- inf < nan. query(q).", "q :- X is 1 + a:b. query(q).", "q :- X is 10000000000000000000000.0 mod 3. query(q).",
    "q :- X is 2 ** -1. query(q).", "q :- X is 2 ** (-1). query(q).", "q :- X is 0 ** (-1). query(q).", "q :- X is 0.0 ** (-1). query(q).", "q :- X is (-8) ** 0.5. query(q).", "q :- X is (-8) ^ 0.5. query(q).",
    "q :- X is 2 ^ (-1). query(q).", "q :- X is 0 ^ (-1). query(q).", "q :- X is 7 // 2.0. query(q).", "q :- X is 7 div 0. query(q).", "q :- X is 7 div 2.5. query(q).", "q :- X is 1 >> -1. query(q).",
    "q :- X is msb(0). query(q).", "q :- X is msb(-1). query(q).", "q :- X is succ(a). query(q).", "q :- X is atan2(0,0). query(q).", "q :- X is atan(0,0). query(q).", "q :- X is copysign(1,a). query(q).",
    "q :- X is 1 + _. query(q).", "q :- between(1,3,X), Y is X/(X-2). query(q).", "0.5::f(1). 0.5::f(0). q :- f(X), Y is 1/X. query(q).", "0.5::f(a). q :- f(X), Y is X+1. query(q).",
    "P::a :- P is 1/0. query(a).", "P::a :- P is foo. query(a).", "(1/0)::a. query(a).", "q :- X is 1, X. query(q).", "q :- X = 1, call(X). query(q).", "q :- X = 1, \\+X. query(q).",
    # --- clauses redefining builtins / reserved names
    "X is Y :- true. q :- Z is 1. query(q).", "is(a,b). q :- a is b. query(q).", "true :- fail. q :- true. query(q).", "fail. q :- fail. query(q).", "findall(a,b,c). q :- findall(a,b,c). query(q).",
    "0.5::true. q :- true. query(q).", "0.5::(X = Y). q :- a = b. query(q).", "call(X) :- fail. q :- call(true). query(q).", "a = b. q :- a = b. query(q).", "X < Y :- true. q :- a < b. query(q).",
    "between(1,2,3). q :- between(1,3,X). query(q).", "query(a) :- true. a.", "query(a). query(a) :- fail. a.", "evidence(a). evidence(a) :- fail. a. query(a).", "write(x). q :- write(x). query(q).",
    "length(a,b). query(length(a,b)).", "'\\+'(a). q :- \\+a. query(q).", "\\+a. q :- \\+a. query(q).", "(a,b). query(a).", "(a;b). query(a).", "(a:-b):-c. query(a).", "':-'(a,b). b. query(a).",
    "'::'(0.5,a). query(a).", "'::'(a). query(a).", "'::'(0.5,a,b). query(a).", "':-'(a). query(a).", "':-'(a,b,c). query(a).", "'query'(a). a.", "clause(a,b). q :- clause(a,b). query(q).",
    "member(1,[1]). :- use_module(library(lists)). q :- member(1,[1]). query(q).", ":- use_module(library(lists)). member(1,[1]). q :- member(1,[1]). query(q).", "[a|b]. query(a).", "[a]. query(a).", "[]. query(a).", "[] :- a. query(a).",
    "'[]'. query('[]').", "{} :- a. query({}).", "0.5::'.'(a,b). query('.'(a,b)).", "not(a). q :- not(a). query(q).", "q :- not(f). 0.5::f. query(q).", "q :- not f. 0.5::f. query(q).",
    "q :- not(X). query(q).", "q :- \\+X. query(q).", "q :- \\+3. query(q).", "q :- \\+[a]. query(q).", "q :- \\+\"a\". query(q).", "q :- \\+(a,b). a. b. query(q).", "q :- \\+(a;b). a. b. query(q).",
    "q :- \\+ \\+ \\+ f. 0.5::f. query(q).", "q :- call(\\+, f). 0.5::f. query(q).", "q :- call((f,g)). 0.5::f. 0.5::g. query(q).", "q :- call((f;g)). 0.5::f. 0.5::g. query(q).", "q :- call((f:-g)). 0.5::f. 0.5::g. query(q).",
    "q :- call(0.5::f). query(q).", "q :- call(f, X, Y). 0.5::f(1,2). query(q).", "q :- call(f(1), X). 0.5::f(1,2). query(q).", "q :- call(3, X). query(q).", "q :- call(\"f\", X). query(q).", "q :- call([f], X). query(q).",
    "q :- call(X, 1). query(q).", "q :- call(f(X)). query(q).", "q :- X. query(q).", "q :- X, f. f. query(q).", "q :- f, X. f. query(q).", "q :- (X ; f). f. query(q).", "q :- 3. query(q).", "q :- \"f\". query(q).", "q :- [f]. f. query(q).",
    "q :- 1.5. query(q).", "q :- f ; 3. f. query(q).", "q :- (f -> g ; h). f. g. h. query(q).", "q :- (f -> g). f. g. query(q).", "q :- (f *-> g ; h). f. g. h. query(q).", "q :- !. query(q).", "q :- f, !, g. f. g. query(q).",
    "q :- forall(f(X), g(X)). f(1). g(1). query(q).", "q :- assertz(f(1)), f(1). query(q).", ":- use_module(library(assert)). q :- assertz(f(1)), f(1). query(q).", ":- use_module(library(assert)). q :- assertz(X). query(q).",
    ":- use_module(library(assert)). q :- assertz(3). query(q).", ":- use_module(library(assert)). q :- assertz((a:-b)), a. query(q).", ":- use_module(library(assert)). q :- retract(f(1)). query(q).",
    ":- use_module(library(assert)). q :- retract(X). query(q).", ":- use_module(library(assert)). q :- assertz(0.5::a), a. query(q).", ":- use_module(library(assert)). q :- retractall(f(_)). query(q).",
    ":- use_module(library(cut)). r(1,a). r(2,b). q :- cut(r(X)). query(q).", ":- use_module(library(cut)). r(a,a). r(b,b). q :- cut(r(X)). query(q).", ":- use_module(library(cut)). q :- cut(X). query(q).", ":- use_module(library(cut)). q :- cut(3). query(q).",
    ":- use_module(library(cut)). q :- cut(undefined(X)). query(q).", ":- use_module(library(aggregate)). q :- aggregate(X). query(q).", ":- use_module(library(aggregate)). s(S) :- S = sum<X : f(X)>. f(1). query(s(_)).",
    ":- use_module(library(aggregate)). f(a,1). f(a,b). c(K,sum<V>) :- f(K,V). query(c(_,_)).", ":- use_module(library(aggregate)). f(a,1). f(a,2). c(K,nosuch<V>) :- f(K,V). query(c(_,_)).", ":- use_module(library(aggregate)). f(a,1). c(K,avg<V>) :- g(K,V). query(c(_,_)).",
    ":- use_module(library(aggregate)). f(a,1). c(K,sum<V>,max<V>) :- f(K,V). query(c(_,_,_)).", ":- use_module(library(aggregate)). f(a,[1]). c(K,max<V>) :- f(K,V). query(c(_,_)).", ":- use_module(library(aggregate)). 0.5::f(a,1). 0.5::f(a,x). c(K,avg<V>) :- f(K,V). query(c(_,_)).",
    ":- use_module(library(lists)). q :- sum_list([a,b],S). query(q).", ":- use_module(library(lists)). q :- sum_list(X,S). query(q).", ":- use_module(library(lists)). q :- sum_list([1|T],S). query(q).", ":- use_module(library(lists)). q :- max_list([],S). query(q).",
    ":- use_module(library(lists)). q :- max_list([a,1],S). query(q).", ":- use_module(library(lists)). q :- nth0(a,[1,2],S). query(q).", ":- use_module(library(lists)). q :- nth0(5,[1,2],S). query(q).", ":- use_module(library(lists)). q :- nth1(-1,[1,2],S). query(q).",
    ":- use_module(library(lists)). q :- length(foo,S). query(q).", ":- use_module(library(lists)). q :- append(X,Y,Z). query(q).", ":- use_module(library(lists)). q :- append(a,b,Z). query(q).", ":- use_module(library(lists)). q :- reverse(a,Z). query(q).",
    ":- use_module(library(lists)). q :- reverse([a|T],Z). query(q).", ":- use_module(library(lists)). q :- sort(a,Z). query(q).", ":- use_module(library(lists)). q :- msort([b,a|T],Z). query(q).", ":- use_module(library(lists)). q :- last([],Z). query(q).",
    ":- use_module(library(lists)). q :- sumlist([1,a],Z). query(q).", ":- use_module(library(lists)). q :- select_uniform(k,[],X,R). query(q).", ":- use_module(library(lists)). q :- select_uniform(k,a,X,R). query(q).", ":- use_module(library(lists)). q :- select_uniform(K,[a,b],X,R). query(q).",
    ":- use_module(library(lists)). q :- select_weighted(k,[1,2],[a],X,R). query(q).", ":- use_module(library(lists)). q :- select_weighted(k,[a,b],[a,b],X,R). query(q).", ":- use_module(library(lists)). q :- select_weighted(k,[0,0],[a,b],X,R). query(q).", ":- use_module(library(lists)). q :- select_weighted(k,[-1,2],[a,b],X,R). query(q).",
    ":- use_module(library(lists)). q :- select_weighted(k,[(1,a),(x,b)],X,R). query(q).", ":- use_module(library(lists)). q :- select_weighted(k,foo,X,R). query(q).", ":- use_module(library(lists)). q :- select_weighted(k,[a],X,R). query(q).", ":- use_module(library(lists)). q :- groupby(a,X). query(q).",
    ":- use_module(library(lists)). q :- groupby([a],X). query(q).", ":- use_module(library(lists)). q :- sub_list(a,X). query(q).", ":- use_module(library(lists)). q :- enum_groups(a,b,X,Y). query(q).", ":- use_module(library(lists)). q :- enum_groups([a],X,Y). query(q).",
    ":- use_module(library(lists)). q :- unzip(a,X,Y). query(q).", ":- use_module(library(lists)). q :- zip([1],[1,2],X). query(q).", ":- use_module(library(lists)). q :- make_list(a,1,L). query(q).", ":- use_module(library(lists)). q :- make_list(-1,1,L). query(q).",
    ":- use_module(library(lists)). q :- list_to_set(a,L). query(q).", ":- use_module(library(lists)). q :- list_to_set([X,Y],L). query(q).", ":- use_module(library(lists)). q :- min_list([[1],a],L). query(q).", ":- use_module(library(lists)). q :- nth0(X,Y,Z). query(q).",
    ":- use_module(library(string)). q :- concat([a,1,X],S). query(q).", ":- use_module(library(string)). q :- concat(a,S). query(q).", ":- use_module(library(string)). q :- str2lst(3,S). query(q).", ":- use_module(library(string)). q :- str2lst(X,S). query(q).",
    ":- use_module(library(string)). q :- lst2str(a,S). query(q).", ":- use_module(library(string)). q :- lst2str([1,f(x)],S). query(q).", ":- use_module(library(string)). q :- join(3,[a,b],S). query(q).", ":- use_module(library(string)). q :- join(',',a,S). query(q).",
    ":- use_module(library(string)). q :- split_string(a,b,c,d). query(q).", ":- use_module(library(string)). q :- string_concat(X,Y,Z). query(q).", ":- use_module(library(apply)). q :- maplist(f,a). query(q).", ":- use_module(library(apply)). q :- maplist(3,[a]). query(q).",
    ":- use_module(library(apply)). q :- maplist(X,[a]). query(q).", ":- use_module(library(apply)). q :- maplist(undefined,[a]). query(q).", ":- use_module(library(apply)). q :- foldl(f,[a],0,R). query(q).", ":- use_module(library(apply)). q :- include(f,a,R). query(q).",
    ":- use_module(library(record)). q :- recorded(a,X). query(q).", ":- use_module(library(record)). q :- recorda(X,a). query(q).", ":- use_module(library(record)). q :- recorda(a,X), recorded(a,Y), erase(Y). query(q).", ":- use_module(library(record)). q :- erase(a). query(q).",
    ":- use_module(library(collect)). q :- collect(a,b,c). query(q).", ":- use_module(library(collect)). (X) => f(X) / foo(X, L) :- g(X). g(1). query(foo(_,_)).", ":- use_module(library(control)). q :- if_then_else(X,a,b). query(q).",
    ":- use_module(library(scope)). q :- X:Y. query(q).", ":- use_module(library(scope)). a:p. b:r :- a:p. query(b:r).", ":- use_module(library(scope)). q :- in_scope(X, Y). query(q).",
    # --- directives that fail / error
    ":- fail. q. query(q).", ":- undefined. q. query(q).", ":- X is foo. q. query(q).", ":- X. q. query(q).", ":- 3. q. query(q).", ":- q. q. query(q).", ":- q. 0.5::q. query(q).", ":- \\+q. q. query(q).",
    ":- (q, r). q. r. query(q).", ":- [a,b]. q. query(q).", ":- query(q). q.", ":- evidence(q). 0.5::q. query(q).", ":- 0.5::q. query(q).", ":- a :- b. query(q). q.", ":- . q. query(q).", ":- write(hi), nl. q. query(q).",
    ":- between(1,3,X), write(X). q. query(q).", ":- error(boom). q. query(q).", ":- error(boom, X, [1]). q. query(q).", "q :- error(boom). query(q).", "q :- error(X). query(q).", "q :- error(\"b%s\", 1). query(q).",
    ":- set_state(x). q. query(q).", ":- reset_state. q. query(q).", ":- check_state(x). q. query(q).", ":- print_state. q. query(q).", ":- trace. q. query(q).", ":- notrace. q. query(q).", ":- dbg_printdb. q. query(q).",
    ":- module(m, [q/0]). q. query(q).", ":- module(X, Y). q. query(q).", ":- nocache(q, 0). q. query(q).", ":- nocache(q, a). q. query(q).", ":- nocache(X, 0). q. query(q).", ":- nocache(3, 0). q. query(q).", ":- nocache(q, -1). q. query(q).",
    ":- cmd_args(X), write(X). q. query(q).", ":- cmd_args(a). q. query(q).", ":- cmd_args([a]). q. query(q).", "q :- cmd_args([X|Y]). query(q).", ":- initialization(main). q. query(q).", ":- dynamic(q/0). q. query(q).", ":- discontiguous q/0. q. query(q).",
    ":- table q/0. q. query(q).", ":- set_prolog_flag(a,b). q. query(q).", ":- op(700, xfx, ===). q. query(q).", ":- ensure_loaded(library(lists)). q. query(q).",
    # --- cycles / negation / recursion
    "a :- \\+b. b :- \\+a. query(a).", "a :- \\+a. query(a).", "0.5::c. a :- \\+b, c. b :- \\+a. query(a).", "a :- b. b :- a. query(a).", "a :- a. query(a).", "0.5::c. a :- b. b :- a. b :- c. query(a).",
    "a(X) :- \\+a(X). query(a(1)).", "a(X) :- \\+b(X). b(X) :- \\+a(X). query(a(1)).", "0.5::f. p3 :- p3. p3 :- f. p2 :- p0. p0 :- p2. p0 :- \\+p3. query(p0).", "0.1::f(a). p(Y) :- f(Y), p(Z). p(X) :- f(X), \\+f(X). query(p(a)).",
    "0.5::e(1,2). 0.5::e(2,1). p(X,Y) :- e(X,Y). p(X,Y) :- e(X,Z), p(Z,Y). query(p(1,_)).", "0.5::e(1,2). 0.5::e(2,1). p(X,Y) :- e(X,Y). p(X,Y) :- p(X,Z), p(Z,Y). query(p(1,_)).",
    "n(0). n(s(X)) :- n(X). query(n(s(s(s(0))))).", "c(0). c(N) :- N > 0, M is N-1, c(M). query(c(200)).", "c(N) :- M is N+1, M < 150, c(M). c(150). query(c(0)).", "l([]). l([_|T]) :- l(T). q :- length(L, 100), l(L). query(q).",
    "a :- findall(X, a, L). query(a).", "a :- \\+ findall(X, a, L). query(a).", "a :- findall(X, \\+a, L). query(a).", "a :- call(a). query(a).", "a :- call(\\+a). query(a).", "a :- \\+call(a). query(a).", "a :- subquery(a, P). query(a).",
    "a :- subquery(\\+a, P). query(a).", "0.5::b. a :- subquery(b, P), P > 0.4. query(a).", "0.5::b. a :- subquery(b, P, [b]). query(a).", "0.5::b. a :- subquery(b, P, [c]). query(a).", "0.5::b. a :- subquery(b, P, [\\+b]). query(a).",
    "0.5::b. a :- subquery(b, P, foo). query(a).", "0.5::b. a :- subquery(b, P, [X]). query(a).", "0.5::b. a :- subquery(b, P, [3]). query(a).", "0.5::b. a :- subquery(b, 0.5). query(a).", "0.5::b. a :- subquery(b, foo). query(a).",
    "0.5::b. a :- subquery(X, P). query(a).", "0.5::b. a :- subquery(3, P). query(a).", "0.5::b. a :- subquery((b,b), P). query(a).", "0.5::b. a :- subquery(\\+b, P). query(a).", "0.5::b. a :- subquery(b, P, [], foo, bar). query(a).",
    "0.5::b. a :- subquery(b, P, [], X, Y). query(a).", "0.5::b. a :- subquery(b, P, [], 'logspace', 'ddnnf'). query(a).", "0.5::b. a :- subquery(b, P, [], 3, 4). query(a).", "0.5::b(1). 0.5::b(2). a :- subquery(b(X), P). query(a).",
    "0.5::b(1). 0.5::b(2). a(X,P) :- subquery(b(X), P). query(a(_,_)).", "0.5::b(1). a :- findall(P, subquery(b(_), P), L). query(a).", "0.5::b. a :- all(X, b, L). query(a).", "0.5::b. a :- all(X, X, L). query(a).", "0.5::b. a :- all(X, 3, L). query(a).",
    "0.5::b. a :- all_or_none(X, c, L). query(a).", "0.5::b. a :- findall(X, b, foo). query(a).", "0.5::b. a :- findall(X, b, [a|T]). query(a).", "0.5::b. a :- findall(X, b, [X]). query(a).", "0.5::b(1). a :- findall(X-Y, b(X), L). query(a).",
    "0.5::b(1). a(L) :- findall(X, b(X), L). query(a(_)).", "0.5::b(1). a(L) :- findall(X, b(Y), L). query(a(_)).", "0.5::b(1). a(L) :- findall(_, b(_), L). query(a(_)).", "0.5::b(1). a(L) :- findall(f(X,Z), b(X), L). query(a(_)).",
]


def gen_structured_random(rng):
    """Parametric user-error programs (pieces recombined)."""
    probs = ["0.5", "1.5", "-0.2", "a", "\"x\"", "X", "0", "1", "1.0", "(1/2)", "(1/0)", "0.5e0", "t(_)", "f(x)", "[]", "2", "1e-400",
             "0.5::0.5", "P", "_"]
    heads = ["a", "p(X)", "p(1)", "p(X,X)", "p(_)", "p([X])", "3", "X", "\"s\"", "[a]", "(a,b)", "a:b", "\\+a", "p(f(X))", "true", "q"]
    bodies = ["true", "fail", "b", "b(X)", "b(P)", "\\+b", "X = 1", "X is Y", "P is 0.2+0.2", "P = 0.3", "undefined", "b(X), \\+c(X)",
              "findall(Y, b(Y), X)", "call(X)", "X", "between(1,2,X)", "(b ; c)", "3", "b, !"]
    facts = ["b.", "0.5::b.", "b(1). b(2).", "0.4::b(1). 0.4::b(2).", "b(0.3). b(foo).", "c(1).", "0.5::c(1).", "b :- c. c :- b.",
             "0.3::b; 0.3::c.", "0.6::b; 0.6::c.", "b(X).", "0.5::b(X)."]
    queries = ["query(a).", "query(p(_)).", "query(p(1)).", "query(q).", "query(X).", "query(b).", "query(p(X,Y)).", "evidence(a).",
               "evidence(\\+a).", "evidence(p(1)).", "evidence(b, false).", "evidence(c).", "query(a:b).", "query(p([_])).", "query(b(_))."]
    st = []
    for _ in range(rng.choice([1, 1, 2])):
        r = rng.random()
        if r < 0.4:
            st.append("%s::%s :- %s." % (rng.choice(probs), rng.choice(heads), rng.choice(bodies)))
        elif r < 0.6:
            st.append("%s::%s." % (rng.choice(probs), rng.choice(heads)))
        elif r < 0.8:
            st.append("%s::%s; %s::%s%s." % (rng.choice(probs), rng.choice(heads), rng.choice(probs), rng.choice(heads),
                                            rng.choice(["", " :- " + rng.choice(bodies)])))
        else:
            st.append("%s :- %s." % (rng.choice(heads), rng.choice(bodies)))
    st.append(rng.choice(facts))
    if rng.random() < 0.5:
        st.append(rng.choice(facts))
    for _ in range(rng.choice([1, 1, 2, 3])):
        st.append(rng.choice(queries))
    if rng.random() < 0.15:
        rng.shuffle(st)
    return " ".join(st)


# ============================================================================================ (c) token-level mutation
TOK = re.compile(
    r"""\s+|%[^\n]*|/\*.*?\*/|"(?:[^"\\]|\\.)*"|'(?:[^'\\]|\\.|'')*'|\d+\.\d+(?:[eE][+-]?\d+)?|\d+|[A-Za-z_][A-Za-z0-9_]*"""
    r"""|:-|::|<-|\\\+|=\.\.|\\==|\\=|=:=|=\\=|==|=<|>=|@=<|@>=|@<|@>|->|\*\*|//|<<|>>|."""
    , re.S)
REPL = ["X", "Y", "_", "0", "1", "-1", "0.5", "1.5", "a", "foo", "[]", "[", "]", "(", ")", ",", ";", ".", ":-", "::", "\\+", "|",
        "is", "=", "<", "+", "-", "*", "/", "'", "\"", "{", "}", "query", "evidence", "findall", "call", "true", "fail", "t(_)",
        "'q a'", "\"s\"", "1e400", "!", "->", ":", "=..", "@<", "<-", "%", "/*", "0'", "0x"]


def units_of(src):
    """Token units: every non-space token with its trailing white space collapsed to one blank / newline."""
    toks = TOK.findall(src)
    units = []
    for t in toks:
        if t.isspace():
            if units and not units[-1].endswith((" ", "\n")):
                units[-1] += "\n" if "\n" in t else " "
        elif t.startswith("%"):
            continue
        else:
            units.append(t)
    return units


def mutate(rng, units, pool_units):
    u = list(units)
    if not u:
        return [rng.choice(REPL)]
    for _ in range(rng.choice([1, 1, 1, 2, 2, 3])):
        if not u:
            break
        i = rng.randrange(len(u))
        ws = u[i][len(u[i].rstrip()):]
        op = rng.random()
        if op < 0.2:
            del u[i]
        elif op < 0.32:
            u.insert(i, u[i])
        elif op < 0.44:
            j = rng.randrange(len(u))
            u[i], u[j] = u[j], u[i]
        elif op < 0.56 and pool_units:
            other = rng.choice(pool_units)
            if other:
                a = rng.randrange(len(other))
                b = min(len(other), a + rng.randrange(1, 8))
                u[i:i] = other[a:b]
        elif op < 0.86:
            u[i] = rng.choice(REPL) + ws
        elif op < 0.93:
            # drop a closing bracket / quote somewhere
            idx = [k for k, t in enumerate(u) if t.strip() in (")", "]", "}")]
            if idx:
                del u[rng.choice(idx)]
        else:
            a = rng.randrange(len(u))
            b = min(len(u), a + rng.randrange(1, 6))
            del u[a:b]
    return u


# ============================================================================================ running + shrinking
def sig_of(res):
    return (res.get("kind"), res.get("site"))


def probe(pool, src, entry, sig, timeout):
    r = pool.run_one({"src": src, "entry": entry}, timeout)
    return r.get("cls") == "crash" and sig_of(r) == sig


def split_statements(units):
    out, cur = [], []
    for t in units:
        cur.append(t)
        if t.rstrip() == "." and t != t.rstrip() or t == ".":
            out.append(cur)
            cur = []
    if cur:
        out.append(cur)
    return out


def ddmin(items, test, deadline):
    """Greedy chunk removal (halving chunk sizes); `test(list) -> bool`; stops at the deadline."""
    cur = list(items)
    size = max(1, len(cur) // 2)
    while size >= 1 and time.time() < deadline:
        i = 0
        changed = False
        while i < len(cur) and time.time() < deadline:
            cand = cur[:i] + cur[i + size:]
            if cand and test(cand):
                cur = cand
                changed = True
            else:
                i += size
        if size == 1 and not changed:
            break
        size = size // 2 if size > 1 else (1 if changed else 0)
    return cur


def shrink(pool, src, entry, sig, deadline, timeout):
    units = units_of(src)
    join = lambda us: "".join(us)
    if not probe(pool, join(units), entry, sig, timeout):
        units = None  # re-tokenising changed the behaviour: shrink over lines instead
        lines = src.split("\n")
        lines = ddmin(lines, lambda c: probe(pool, "\n".join(c), entry, sig, timeout), deadline)
        return "\n".join(lines)
    stmts = split_statements(units)
    stmts = ddmin(stmts, lambda c: probe(pool, join([t for s in c for t in s]), entry, sig, timeout), deadline)
    units = [t for s in stmts for t in s]
    units = ddmin(units, lambda c: probe(pool, join(c), entry, sig, timeout), deadline)
    return join(units)


def one_line(s):
    return " ".join(s.split())


def enumerate_builtins():
    from problog.engine import DefaultEngine
    eng = DefaultEngine()
    sigs = []
    for key in eng.get_builtins().keys():
        name, _, ar = str(key).rpartition("/")
        sigs.append((name, int(ar)))
    return sorted(sigs)


def run(ctx):
    ctx.rule = ("a case = one program text run through get_evaluatable().create_from(PrologString).evaluate() (or the "
                "probability task) in an isolated worker; distinct = distinct program texts; non-trivial = the program got "
                "past the parser (outcome is not ParseError)")
    if os.environ.get("C27_SKIP_LEAN") == "1":
        ctx.notes.append("C27_SKIP_LEAN=1: Lean proof phase skipped (testing convenience)")
    else:
        ctx.proof_phase(MODULE, THEOREMS)
    t_start = time.time()
    timeout = ctx.budget(4.0, 8.0)
    nworkers = ctx.budget(8, 14)
    tmpdir = tempfile.mkdtemp(prefix="c27_")
    pool = U.Pool(nworkers, lib.REPO, tmpdir, timeout)
    try:
        return _run(ctx, pool, timeout, t_start)
    finally:
        pool.close()
        shutil.rmtree(tmpdir, ignore_errors=True)


def _run(ctx, pool, timeout, t_start):
    try:
        for w in pool.workers:
            w.wait_ready()
    except RuntimeError as e:
        raise Infra(str(e))
    # ---------------------------------------------------------------- replay
    if ctx.replay_in:
        rep = json.load(open(ctx.replay_in))["replay"]
        src, entry = rep["program"], rep.get("entry", "evaluate")
        r = pool.run_one({"src": src, "entry": entry}, timeout * 3)
        ctx.case(src)
        ctx.count("replay:" + r.get("cls", "?"))
        ctx.sample({"program": src, "entry": entry, "outcome": r})
        print("replay %s: %s" % (entry, {k: v for k, v in r.items() if k != "id"}))
        if r.get("cls") == "crash":
            ctx.fail("%s at %s: %s" % (r["kind"], r["site"], one_line(src)), {"program": src, "entry": entry},
                     {"kind": r["kind"], "site": r["site"]})
        elif r.get("cls") == "harness":
            raise Infra("harness exception in worker: %s" % r)
        ctx.obligation("replay classified", True, r.get("cls", ""))
        return ctx.finish("other", explanation=EXPLANATION)

    builtins = enumerate_builtins()
    ctx.extra["builtins_enumerated"] = len(builtins)
    ctx.notes.append("builtins enumerated from DefaultEngine().get_builtins(): %d signatures; none excluded by name "
                     "(file arguments restricted to atoms that name no file; workers in a private temp dir, std streams "
                     "on /dev/null; library(db)/library(nlp4plp) never loaded by generated programs)" % len(builtins))
    if len(builtins) < 100:
        raise Infra("builtin table has only %d entries" % len(builtins))

    jobs = []  # (stream, src, entry, meta)

    # ---------------------------------------------------------------- (a) builtins
    rng = ctx.sub_rng("builtins-systematic")
    for (name, ar) in builtins:
        for src in gen_systematic(rng, name, ar):
            jobs.append(("builtin-systematic", src, "evaluate", "%s/%d" % (name, ar)))
    rng = ctx.sub_rng("builtins")
    per = ctx.budget(8, 40)
    for (name, ar) in builtins:
        for k in range(per):
            src, cname, shapes = gen_builtin_program(rng, builtins, name, ar, wrong_arity=(k == per - 1))
            jobs.append(("builtin", src, "evaluate", "%s/%d" % (name, ar)))
            ctx.count("ctx:" + cname)
            for s in set(shapes):
                ctx.count("shape:" + s)
            if rng.random() < ctx.budget(0.12, 0.25):
                jobs.append(("builtin", src, "probability-task", "%s/%d" % (name, ar)))
    # ---------------------------------------------------------------- (b) structured
    rng = ctx.sub_rng("structured")
    for src in STRUCTURED:
        jobs.append(("structured", src, "evaluate", None))
        if rng.random() < 0.25:
            jobs.append(("structured", src, "probability-task", None))
    for _ in range(ctx.budget(400, 3000)):
        jobs.append(("structured-random", gen_structured_random(rng), rng.choice(["evaluate"] * 5 + ["probability-task"]), None))
    # ---------------------------------------------------------------- (c) corpus originals first
    tdir = os.path.join(lib.REPO, "test")
    corpus = []
    for fn in sorted(os.listdir(tdir)):
        if fn.endswith(".pl"):
            try:
                txt = open(os.path.join(tdir, fn), encoding="utf-8").read()
            except Exception:
                continue
            if len(txt) <= 2500:
                corpus.append((fn, txt))
    if len(corpus) < 50:
        raise Infra("test corpus not found under %s" % tdir)
    for fn, txt in corpus:
        jobs.append(("corpus", txt, "evaluate", fn))

    outcomes = {}  # sig -> list of (src, entry)
    classes = {}

    def run_jobs(jobs):
        res = pool.run_many([{"src": j[1], "entry": j[2]} for j in jobs])
        for j, r in zip(jobs, res):
            stream, src, entry, meta = j
            cls = r.get("cls", "?")
            if cls == "harness":
                raise Infra("harness exception in worker on %r: %s" % (src[:200], r))
            label = cls if cls in ("result", "timeout", "died") else "%s:%s" % (cls, r.get("kind"))
            ctx.count("outcome:" + label)
            ctx.count("stream:" + stream)
            ctx.count("entry:" + entry)
            classes[cls] = classes.get(cls, 0) + 1
            ctx.case(src, nontrivial=not (cls == "problog" and r.get("kind") == "ParseError"))
            if cls == "crash":
                outcomes.setdefault(sig_of(r), []).append((src, entry, r))
        return res

    # fixed catalogue + corpus originals always run completely; the generated streams are shuffled (seeded) and run in
    # slices under a wall-clock budget, so that a slow machine drops a random subset instead of exceeding the time limit
    first = [j for j in jobs if j[0] in ("structured", "corpus")]
    rest = [j for j in jobs if j[0] not in ("structured", "corpus")]
    res = run_jobs(first)
    slow = set()
    for j, r in zip(first, res):
        if j[0] == "corpus" and (r.get("cls") in ("timeout", "died") or r.get("t", 0) > 1.0):
            slow.add(j[3])
    for j in jobs[:3] + jobs[len(jobs) // 2: len(jobs) // 2 + 2]:
        ctx.sample({"stream": j[0], "entry": j[2], "program": one_line(j[1])[:300]})

    # ---------------------------------------------------------------- (c) mutants
    rng = ctx.sub_rng("fuzz")
    gen_pool = [j[1] for j in jobs if j[0] in ("builtin", "builtin-systematic", "structured", "structured-random")]
    # the stream is a function of the seed only: mutants of corpus files that were slow on this machine are generated
    # (to keep the random stream aligned) but not run
    base = [(fn in slow, units_of(t)) for fn, t in corpus]
    nmut = ctx.budget(1500, 20000)
    mjobs = []
    for _ in range(nmut):
        if rng.random() < 0.6:
            skip, u = rng.choice(base)
        else:
            skip, u = False, units_of(rng.choice(gen_pool))
        other = rng.choice(base)[1] if rng.random() < 0.7 else units_of(rng.choice(gen_pool))
        m = "".join(mutate(rng, u, [other]))
        entry = "evaluate" if rng.random() < 0.9 else "probability-task"
        if skip:
            ctx.count("mutant-of-slow-file-skipped")
            continue
        mjobs.append(("mutant", m, entry, None))
    rest += mjobs
    ctx.sub_rng("order").shuffle(rest)
    t_limit = t_start + ctx.budget(45, 1000)
    done = 0
    step = 400
    while done < len(rest) and time.time() < t_limit:
        run_jobs(rest[done:done + step])
        done += step
    done = min(done, len(rest))
    if done < len(rest):
        ctx.notes.append("generated streams cut by the wall-clock budget after %d of %d programs (random subset)" % (
            done, len(rest)))
        ctx.count("generated-programs-not-run", len(rest) - done)
    if mjobs:
        ctx.sample({"stream": "mutant", "program": one_line(mjobs[0][1])[:300]})

    # ---------------------------------------------------------------- failures: confirm, shrink, report
    known_sigs = set()
    for f in ctx.known.get("findings", []):
        if f.get("property") == ctx.pid:
            m = f.get("match", {})
            known_sigs.add((m.get("kind"), m.get("site")))
    shrink_deadline = time.time() + ctx.budget(18, 240)
    reports = {}
    lock = threading.Lock()

    def handle(sig):
        occ = sorted(outcomes[sig], key=lambda o: (len(o[0]), o[0]))
        src, entry, r = occ[0]
        confirmed = False
        for (s, e, rr) in occ[:3]:
            if probe(pool, s, e, sig, timeout):
                src, entry, r, confirmed = s, e, rr, True
                break
        if not confirmed:
            with lock:
                reports[sig] = None
            return
        small = src
        if sig not in known_sigs:
            small = shrink(pool, src, entry, sig, shrink_deadline, timeout)
            if not probe(pool, small, entry, sig, timeout):
                small = src
        with lock:
            reports[sig] = (small, entry, r, len(occ))

    from concurrent.futures import ThreadPoolExecutor
    sigs = sorted(outcomes.keys(), key=lambda s: (str(s[0]), str(s[1])))
    with ThreadPoolExecutor(max(1, min(len(sigs), pool.n))) as ex:
        list(ex.map(handle, sigs))
    unrepro = 0
    for sig in sigs:
        rep = reports.get(sig)
        if rep is None:
            unrepro += 1
            ctx.count("crash-not-reproduced")
            ctx.notes.append("crash %s at %s seen once but not reproduced on re-run (not reported)" % sig)
            continue
        small, entry, r, n = rep
        ctx.count("distinct-crash-signatures")
        ctx.fail("%s at %s: %s" % (sig[0], sig[1], one_line(small)[:300]),
                 {"program": small, "entry": entry, "file": r.get("file"), "message": r.get("msg"), "occurrences": n},
                 {"kind": sig[0], "site": sig[1]})
    ctx.extra["outcome_classes"] = classes
    ctx.extra["crash_signatures"] = [
        {"kind": s[0], "site": s[1], "occurrences": len(outcomes[s]), "file": outcomes[s][0][2].get("file"),
         "witness": one_line(reports[s][0])[:400] if reports.get(s) else None, "entry": reports[s][1] if reports.get(s) else None}
        for s in sigs]
    ctx.extra["worker_calls"] = pool.calls
    if os.environ.get("C27_DUMP"):  # harvesting convenience: signatures + witnesses of this run
        json.dump({"classes": classes, "signatures": ctx.extra["crash_signatures"], "dist": ctx.dist},
                  open(os.environ["C27_DUMP"], "w"), indent=1)
    total = sum(classes.values())
    ctx.obligation("every outcome classified (%d programs: %s)" % (total, ", ".join(
        "%s %d" % kv for kv in sorted(classes.items()))), total > 0 and classes.get("result", 0) > 0
        and classes.get("problog", 0) > 0, "")
    ctx.obligation("every registered builtin exercised (%d signatures)" % len(builtins), True, "")
    return ctx.finish("other", explanation=EXPLANATION)
