"""C33 — the soft-cut library picks the lowest-indexed applicable rule.

Tie: (a) problog/library/cut.pl is parsed with ProbLog's own parser on every run and compared clause by clause with
the clause list the Lean model (lean/ProbLogModel/Cut.lean) was written from; (b) generated indexed rule sets
(indices 1..15 and a few non-integer indices, shuffled file order, deterministic and probabilistic applicability
conditions) are run through real inference; per possible world the clause abstraction is run through the compiled
Lean model (which uses C15's sort model) and the world probabilities are summed.
Search oracle (independent of the Lean model): "answers of the applicable rule with the smallest index" computed
directly in Python with order_util.std_cmp, per possible world."""
import itertools
import json
import os

import lib
from lib import Infra
from order_util import I, F, A, to_sexp, to_src, show, std_cmp

MODULE = "ProbLogProofs.Properties.C33"
P = "ProbLogProofs.C33."
THEOREMS = [P + "C33_min_index", P + "C33_fails_iff", P + "C33_index_is_minimum"]

MANIFEST = {
    "level": "proof",
    "technique": "Lean 4 theorems about a hand-written model of library/cut.pl built on C15's sort model + structural "
                 "diff of the parsed cut.pl against the modelled clauses + generated rule sets through real inference "
                 "vs the compiled model (per possible world) and vs an independent Python oracle",
    "text": "Lean: for every well-formed indexed rule set, cut succeeds with index v iff v is the standard-order minimum "
            "(numeric order on numbers) of the indices of the applicable clauses, with exactly the answers of the clauses "
            "of index v, independent of file order; it fails iff no clause is applicable (uses C15_sort_mem and "
            "C15_sort_strictly_ascending). Every run: cut.pl parsed with ProbLog's parser equals the modelled clause "
            "list; generated rule sets r(I,…) with shuffled indices 1..15 (and float/atom indices) and deterministic or "
            "probabilistic bodies are evaluated by ProbLog (cut/1 and cut/2, free and bound arguments) and compared with "
            "the model and the oracle.",
    "note": "Conditional on C15 (sort/2): on a tree without repo_patches/C15_number_order the check reports index 10 "
            "chosen before 2. The Lean model is per possible world; the sum over worlds and the evaluation of rule "
            "bodies are done by the harness. Trusted: Lean kernel, standard axioms, harness/driver glue, Python oracle.",
    "design_ref": "DESIGN.md §6 C33",
}

# The clauses of library/cut.pl the model was written from (str() of the parsed clauses, in file order).
EXPECTED_CUT_PL = [
    ":- module(cut,[cut/1, cut/2])",
    "cut(Call) :- Call=..[Pred | Args], RCall=..[Pred, Index | Args], all(Index,clause(RCall,_),List), "
    "sort(List,OList), cut(RCall,Index,OList,Call)",
    "cut(Call,Index) :- Call=..[Pred | Args], RCall=..[Pred, Index | Args], all(Index,clause(RCall,_),List), "
    "sort(List,OList), cut(RCall,Index,OList,Call)",
    "cut(RCall,Index,[Index | Rest],Call) :- call(RCall)",
    "cut(RCall,Index,[Value | Rest],Call) :- \\+(Value=Index, call(RCall)), cut(RCall,Index,Rest,Call)",
]

CONSTS = ["a", "b", "c"]
GEN = ["a", "b"]          # d(a). d(b).


def parsed_cut_pl():
    from problog.program import PrologFile
    import problog
    path = os.path.join(os.path.dirname(problog.__file__), "library", "cut.pl")
    return [str(c) for c in PrologFile(path)], path


# --------------------------------------------------------------------------- rule sets
def gen_ruleset(rng):
    """A rule set: {'arity': k, 'facts': [(name, prob)], 'clauses': [clause …] in file order}.
    clause = {'index': term, 'head': [('c', const) | ('v', name)], 'body': [literal …]}
    literal = ('fact', name, positive) | ('bind', var, const) | ('gen', var) | ('fail',) | ('true',)"""
    k = rng.choice([1, 1, 2])
    nf = rng.choice([0, 0, 1, 2, 3, 4])
    facts = [("p%d" % i, rng.choice([0.1, 0.25, 0.3, 0.5, 0.6, 0.8])) for i in range(nf)]
    n = rng.choice([2, 3, 4, 5, 6, 8, 10, 15])
    pool = list(range(1, 16))
    idxs = [I(i) for i in rng.sample(pool, min(n, 15))]
    if rng.random() < 0.5 and not any(t == I(10) for t in idxs):
        idxs.append(I(10))
    r = rng.random()
    if r < 0.15:
        idxs.append(F(rng.choice([2.5, 0.5, 9.5, 20.0])))
    elif r < 0.25:
        idxs.append(A(rng.choice(["last", "zz"])))
    elif r < 0.3:
        idxs.append(I(rng.choice([-3, 0, 100, 120])))
    if rng.random() < 0.2:
        idxs.append(rng.choice(idxs))          # two clauses with the same index: one rule with two clauses
    rng.shuffle(idxs)
    clauses = []
    for ix in idxs:
        head, body, bound = [], [], []
        for j in range(k):
            if rng.random() < 0.5:
                head.append(('c', rng.choice(CONSTS)))
            else:
                v = "X%d" % j
                head.append(('v', v))
                bound.append(v)
        r = rng.random()
        if r < 0.12:
            body.append(('fail',))
        elif facts and r < 0.75:
            for name, _ in rng.sample(facts, rng.choice([1, 1, 2]) if len(facts) > 1 else 1):
                body.append(('fact', name, rng.random() < 0.75))
        elif r < 0.85:
            body.append(('true',))
        for v in bound:
            if rng.random() < 0.7:
                body.append(('bind', v, rng.choice(CONSTS)))
            else:
                body.append(('gen', v))
        rng.shuffle(body)
        clauses.append({"index": ix, "head": head, "body": body})
    return {"arity": k, "facts": facts, "clauses": clauses}


def gen_patterns(rng, rs):
    k = rs["arity"]
    pats = [[None] * k]
    for _ in range(2):
        pats.append([rng.choice(CONSTS) if rng.random() < 0.6 else None for _ in range(k)])
    pats = pats[:2] if rng.random() < 0.7 else pats
    out = []
    for p in pats:
        if p not in out:
            out.append(p)
    return out


def lit_src(l):
    if l[0] == 'fact':
        return l[1] if l[2] else "\\+ " + l[1]
    if l[0] == 'bind':
        return "%s = %s" % (l[1], l[2])
    if l[0] == 'gen':
        return "d(%s)" % l[1]
    return l[0]


def program_src(rs, pats):
    lines = [":- use_module(library(cut))."]
    for name, p in rs["facts"]:
        lines.append("%s::%s." % (p, name))
    lines += ["d(%s)." % g for g in GEN]
    for c in rs["clauses"]:
        head = "r(%s)" % ", ".join([to_src(c["index"], {})] + [h[1] for h in c["head"]])
        lines.append(head + (" :- " + ", ".join(lit_src(l) for l in c["body"]) if c["body"] else "") + ".")
    k = rs["arity"]
    for n, pat in enumerate(pats):
        args = [p if p is not None else "A%d" % j for j, p in enumerate(pat)]
        free = [a for a, p in zip(args, pat) if p is None]
        lines.append("q%d(%s) :- cut(r(%s))." % (n, ", ".join(free + ["one"]), ", ".join(args)))
        lines.append("w%d(%s) :- cut(r(%s), I)." % (n, ", ".join(free + ["I"]), ", ".join(args)))
        lines.append("query(q%d(%s)). query(w%d(%s))." % (n, ", ".join(["_"] * (len(free) + 1)), n, ", ".join(["_"] * (len(free) + 1))))
    return "\n".join(lines)


# --------------------------------------------------------------------------- semantics of one clause in one world
def clause_answers(c, pat, world):
    """(head matches the pattern, list of answers (tuples of constants for the free positions))."""
    head = c["head"]
    matches = all(p is None or h[0] == 'v' or h[1] == p for h, p in zip(head, pat))
    # repeated head variables do not occur (distinct names per position)
    if not matches:
        return False, []
    choices = {}
    for l in c["body"]:
        if l[0] == 'fail':
            return True, []
        if l[0] == 'fact' and world[l[1]] != l[2]:
            return True, []
        if l[0] == 'bind':
            choices[l[1]] = [l[2]]
        if l[0] == 'gen':
            choices[l[1]] = list(GEN)
    names = [h[1] for h in head if h[0] == 'v']
    out = []
    for combo in itertools.product(*[choices[v] for v in names]):
        env = dict(zip(names, combo))
        inst = [h[1] if h[0] == 'c' else env[h[1]] for h in head]
        if all(p is None or x == p for x, p in zip(inst, pat)):
            ans = tuple(x for x, p in zip(inst, pat) if p is None)
            if ans not in out:
                out.append(ans)
    return True, out


def worlds(rs):
    names = [n for n, _ in rs["facts"]]
    for bits in itertools.product([True, False], repeat=len(names)):
        w = dict(zip(names, bits))
        pr = 1.0
        for (n, p), b in zip(rs["facts"], bits):
            pr *= p if b else 1 - p
        yield w, pr


def oracle(rs, pat):
    """{('q', answer…): prob, ('w', answer…, index text): prob} — lowest applicable index in the standard order."""
    dist = {}
    for w, pr in worlds(rs):
        best = None
        for c in rs["clauses"]:
            m, ans = clause_answers(c, pat, w)
            if ans and (best is None or std_cmp(c["index"], best) < 0):
                best = c["index"]
        if best is None:
            continue
        answers = []
        for c in rs["clauses"]:
            if c["index"] == best:
                for a in clause_answers(c, pat, w)[1]:
                    if a not in answers:
                        answers.append(a)
        for a in answers:
            dist[('q',) + a] = dist.get(('q',) + a, 0.0) + pr
            key = ('w',) + a + (show(best),)
            dist[key] = dist.get(key, 0.0) + pr
    return dist


def model_lines(rs, pat):
    lines, prs = [], []
    for w, pr in worlds(rs):
        cl = []
        for c in rs["clauses"]:
            m, ans = clause_answers(c, pat, w)
            cl.append("(%s %d (%s))" % (to_sexp(c["index"]), 1 if m else 0, " ".join("<" + "|".join(a) + ">" for a in ans)))
        lines.append("cut " + " ".join(cl))
        prs.append(pr)
    return lines, prs


def model_from_out(out, prs):
    dist = {}
    for o, pr in zip(out, prs):
        if o == "none":
            continue
        if not o.startswith("some "):
            raise Infra("driver C33: " + o)
        body = o[5:]
        k = body.rindex(" (")
        idx, ans = body[:k], body[k + 2:-1].split()
        answers = []
        for a in ans:
            t = tuple(a[1:-1].split("|")) if a[1:-1] else ()
            if t not in answers:
                answers.append(t)
        for a in answers:
            dist[('q',) + a] = dist.get(('q',) + a, 0.0) + pr
            key = ('w',) + a + (sexp_show(idx),)
            dist[key] = dist.get(key, 0.0) + pr
    return dist


def model_dist(drv, rs, pat):
    lines, prs = model_lines(rs, pat)
    return model_from_out(drv.run(lines), prs)


def sexp_show(s):
    """(i 3) / (f 5/2) / (a "last") → the text ProbLog prints."""
    from fractions import Fraction
    s = s.strip()
    if s.startswith("(i "):
        return s[3:-1]
    if s.startswith("(f "):
        return repr(float(Fraction(s[3:-1])))
    if s.startswith("(a "):
        return json.loads(s[3:-1])
    return s


def ground_eval(src):
    """Ground with the real engine (this is what executes cut.pl), then evaluate the ground and/or DAG exactly by
    enumerating the truth values of its probabilistic atoms (no knowledge compiler needed)."""
    from problog.program import PrologString
    from problog.engine import DefaultEngine
    from problog.formula import LogicDAG
    import warnings
    with warnings.catch_warnings():
        warnings.simplefilter("ignore")
        eng = DefaultEngine()
        gp = eng.ground_all(eng.prepare(PrologString(src)))
        dag = LogicDAG.create_from(gp)
    n = len(dag)
    nodes = [None] + [dag.get_node(i) for i in range(1, n + 1)]
    atoms = [i for i in range(1, n + 1) if type(nodes[i]).__name__ == 'atom']
    if len(atoms) > 12:
        raise Infra("too many probabilistic atoms in the ground program")
    queries = list(dag.queries())
    res = {}
    for bits in itertools.product([True, False], repeat=len(atoms)):
        val = {}
        pr = 1.0
        for a, b in zip(atoms, bits):
            p = float(nodes[a].probability)
            val[a] = b
            pr *= p if b else 1 - p

        def ev(k):
            if k < 0:
                return not ev(-k)
            if k not in val:
                nd = nodes[k]
                if type(nd).__name__ == 'conj':
                    val[k] = all(ev(c) for c in nd.children)
                else:
                    val[k] = any(ev(c) for c in nd.children)
            return val[k]
        for name, node in queries:
            t = True if node == 0 else (False if node is None else ev(node))
            res[name] = res.get(name, 0.0) + (pr if t else 0.0)
    return res


def full_eval(src):
    from problog.program import PrologString
    from problog import get_evaluatable
    import warnings
    with warnings.catch_warnings():
        warnings.simplefilter("ignore")
        return dict(get_evaluatable().create_from(PrologString(src)).evaluate())


def impl_dists(rs, pats, full=False):
    """[{key: prob}] per pattern from real inference — one program per call pattern: the ground atom cut(r(b)) is
    tabled, so an open call cut(r(X)) and the call cut(r(b)) in one program share (and disturb) each other's result."""
    out = []
    for pat in pats:
        src = program_src(rs, [pat])
        res = full_eval(src) if full else ground_eval(src)
        d = {}
        for name, p in res.items():
            f = str(name.functor)
            if p < 1e-12 and not name.is_ground():
                continue      # ProbLog reports a query without answers as the non-ground query with probability 0
            args = [str(a) for a in name.args]
            key = (('q',) + tuple(args[:-1])) if f[0] == 'q' else (('w',) + tuple(args))
            d[key] = d.get(key, 0.0) + p
        out.append(d)
    return out


def dist_diff(a, b):
    for k in sorted(set(a) | set(b)):
        if not lib.close(a.get(k, 0.0), b.get(k, 0.0), 1e-7) and abs(a.get(k, 0.0) - b.get(k, 0.0)) > 1e-9:
            return k, a.get(k, 0.0), b.get(k, 0.0)
    return None


def check_ruleset(rs, pats, drv, full=False, defer=None):
    """Returns (failure or None, disagreement or None). failure = (what, pattern index).
    With `defer` (a list) the model comparison is postponed: (lines, prs, impl dist, pattern, rs) are appended."""
    try:
        impl = impl_dists(rs, pats, full)
    except Infra:
        raise
    except Exception as e:
        return ("inference raises %s: %s" % (type(e).__name__, str(e)[:150]), 0), None
    fail, dis = None, None
    for n, pat in enumerate(pats):
        o = oracle(rs, pat)
        d = dist_diff(impl[n], o)
        if d and fail is None:
            kind = "cut/2" if d[0][0] == 'w' else "cut/1"
            fail = ("%s with pattern %s: answer %s has probability %.6g, the lowest-index rule gives %.6g" % (
                kind, pat, list(d[0][1:]), d[1], d[2]), n)
        if defer is not None:
            lines, prs = model_lines(rs, pat)
            defer.append((lines, prs, impl[n], pat, rs))
        elif drv is not None:
            m = model_dist(drv, rs, pat)
            d2 = dist_diff(impl[n], m)
            if d2 and dis is None:
                dis = "pattern %s key %s: implementation %.6g, model %.6g" % (pat, d2[0], d2[1], d2[2])
    return fail, dis


def shrink(rs, pats, pred):
    """Drop clauses, body literals, facts and patterns while the failure persists."""
    cur = json.loads(json.dumps(rs))
    cur["clauses"] = [dict(c, index=tuple(c["index"]), head=[tuple(h) for h in c["head"]], body=[tuple(l) for l in c["body"]])
                      for c in cur["clauses"]]
    cur["facts"] = [tuple(f) for f in cur["facts"]]
    for p in pats:
        if pred(cur, [p]):
            pats = [p]
            break
    changed = True
    while changed:
        changed = False
        for i in range(len(cur["clauses"]) - 1, -1, -1):
            cand = dict(cur, clauses=cur["clauses"][:i] + cur["clauses"][i + 1:])
            if cand["clauses"] and pred(cand, pats):
                cur, changed = cand, True
        for i, c in enumerate(cur["clauses"]):
            for j in range(len(c["body"]) - 1, -1, -1):
                if c["body"][j][0] in ('bind', 'gen'):
                    continue
                nc = dict(c, body=c["body"][:j] + c["body"][j + 1:])
                cand = dict(cur, clauses=cur["clauses"][:i] + [nc] + cur["clauses"][i + 1:])
                if pred(cand, pats):
                    cur, changed = cand, True
                    c = nc
        used = set(l[1] for c in cur["clauses"] for l in c["body"] if l[0] == 'fact')
        nf = [f for f in cur["facts"] if f[0] in used]
        if len(nf) != len(cur["facts"]):
            cand = dict(cur, facts=nf)
            if pred(cand, pats):
                cur, changed = cand, True
    return cur, pats


def decode(rs):
    def t(x):
        return tuple(t(y) for y in x) if isinstance(x, list) else x
    return {"arity": rs["arity"], "facts": [tuple(f) for f in rs["facts"]],
            "clauses": [{"index": t(c["index"]), "head": [tuple(h) for h in c["head"]], "body": [tuple(l) for l in c["body"]]}
                        for c in rs["clauses"]]}


def run(ctx):
    ctx.rule = ("a case = one generated rule set r(I,…) with 3 call patterns, each evaluated with cut/1 and cut/2 by real "
                "inference; distinct = distinct programs; non-trivial = at least 2 clauses with different indices")
    ctx.proof_phase(MODULE, THEOREMS)
    drv = ctx.driver("Drivers.C33")
    ctx.assumptions.append("one call pattern of cut per program (ProbLog tables the ground atom cut(r(b)): an open call "
                           "cut(r(X)) and a call cut(r(b)) in the same program share one result)")
    ctx.assumptions.append("C15: sort/2 follows the standard order (repo_patches/C15_number_order)")

    # (a) the modelled clauses are the clauses of cut.pl
    got, path = parsed_cut_pl()
    same = got == EXPECTED_CUT_PL
    ctx.obligation("library/cut.pl parsed with ProbLog's parser equals the clause list the model was written from",
                   same, "" if same else "first difference: %s" % next(
                       ((a, b) for a, b in itertools.zip_longest(got, EXPECTED_CUT_PL) if a != b), None).__repr__())
    ctx.case(("cut.pl", "\n".join(got)))
    ctx.count("cut.pl clause", len(got))

    if ctx.replay_in:
        rep = json.load(open(ctx.replay_in))["replay"]
        rs, pats = decode(rep["ruleset"]), rep["patterns"]
        ctx.case(json.dumps(rep, default=str))
        ctx.sample({"program": program_src(rs, pats)})
        f, d = check_ruleset(rs, pats, drv)
        if f:
            ctx.fail(f[0] + "\n" + program_src(rs, pats), rep, {"kind": "cut", "op": f[0].split(" ")[0]})
        return ctx.finish("proof")

    rng = ctx.sub_rng("rulesets")
    n = ctx.budget(400, 4000)
    nfull = ctx.budget(15, 200)      # this many programs also go through the full pipeline (dsharp d-DNNF)
    first_fail, first_dis, nfail = None, None, 0
    deferred = []
    # the documented example (docs/source/prolog.rst) in shuffled order, and the multi-digit witness of DESIGN §9
    fixed = [
        {"arity": 2, "facts": [], "clauses": [
            {"index": I(3), "head": [('c', 'b'), ('c', 'c')], "body": []},
            {"index": I(1), "head": [('c', 'a'), ('c', 'b')], "body": []},
            {"index": I(2), "head": [('c', 'a'), ('c', 'c')], "body": []}]},
        {"arity": 1, "facts": [("p0", 0.3)], "clauses": [
            {"index": I(10), "head": [('c', 'a')], "body": []},
            {"index": I(2), "head": [('c', 'b')], "body": [('fact', 'p0', True)]},
            {"index": I(3), "head": [('c', 'c')], "body": []}]},
    ]
    fixed_pats = [[[None, None], ['a', None], [None, 'c'], ['b', None]], [[None]]]
    todo = list(zip(fixed, fixed_pats))
    for _ in range(n):
        rs = gen_ruleset(rng)
        todo.append((rs, gen_patterns(rng, rs)))
    for rs, pats in todo:
        src = program_src(rs, pats)
        idxs = set(c["index"] for c in rs["clauses"])
        ctx.case(src, nontrivial=len(idxs) >= 2)
        ctx.programs += 1
        ctx.count("clauses %d" % min(len(rs["clauses"]), 16))
        ctx.count("facts %d" % len(rs["facts"]))
        ctx.count("multi-digit index" if any(c["index"][0] == 'i' and abs(c["index"][1]) >= 10 for c in rs["clauses"])
                  else "single-digit indices only")
        if any(c["index"][0] != 'i' for c in rs["clauses"]):
            ctx.count("non-integer index")
        ctx.sample({"program": src}, limit=3)
        f, d = check_ruleset(rs, pats, drv, full=(ctx.programs <= nfull), defer=deferred)
        if f:
            nfail += 1
            if first_fail is None:
                first_fail = (rs, pats, f)
    if drv is not None and deferred:
        outs = drv.run([l for item in deferred for l in item[0]])
        k = 0
        for lines, prs, impl_d, pat, rs in deferred:
            m = model_from_out(outs[k:k + len(lines)], prs)
            k += len(lines)
            d2 = dist_diff(impl_d, m)
            if d2 and first_dis is None:
                first_dis = (program_src(rs, [pat]), "pattern %s key %s: implementation %.6g, model %.6g" % (pat, d2[0], d2[1], d2[2]))
    ctx.extra["failing_programs"] = nfail
    if first_fail:
        rs, pats, f = first_fail
        small, spats = shrink(rs, pats, lambda r, p: check_ruleset(r, p, None)[0] is not None)
        f2 = check_ruleset(small, spats, None)[0] or f
        ctx.fail(f2[0] + "\n" + program_src(small, spats), {"ruleset": small, "patterns": spats},
                 {"kind": "cut", "op": f2[0].split(" ")[0]})
    if first_dis:
        ctx.disagree("Cut model vs inference with library(cut)", first_dis[1] + "\n" + first_dis[0])
    ctx.obligation("correspondence: model = inference on %d rule sets" % len(todo), first_dis is None and drv is not None,
                   first_dis[1] if first_dis else "")
    return ctx.finish("proof")
