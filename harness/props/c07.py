"""C07 — marginals do not depend on the textual order of the program.

Every generated program is run under K seeded permutations of its statements (facts, rules, ADs, queries, evidence) and of
its rule bodies (negative literals stay after the positive literals that bind their variables); every permuted run is
compared with the Lean specification `Sem` of the UNPERMUTED program. Lean theorems: the specification is invariant
under permutation of the ground rules / body atoms (least model does not depend on clause order); first-order level
(C07FO): permuting statements / body literals, renaming variables leaves `SemFO.run` unchanged."""
import random

import cfgprop
import spine

MODULE = "ProbLogProofs.Properties.C07"
THEOREMS = [
    "ProbLogProofs.C07.C07_perm_clauses_gamma",
    "ProbLogProofs.C07.C07_perm_body",
    "ProbLogProofs.C07.C07_gamma_set_of_rules",
    "ProbLogProofs.C07.C07_perm_clauses_wfm",
    "ProbLogProofs.C07.C07_perm_body_wfm",
    "ProbLogProofs.C07.C07_perm_clauses_relevant",
    "ProbLogProofs.C07.C07_perm_clauses_run",
    "ProbLogProofs.C07.C07_perm_body_run",
    "ProbLogProofs.C07.C07_perm_groups_run",
    "ProbLogProofs.C07.C07_perm_evidence_run",
    "ProbLogProofs.C07.C07_perm_queries_run",
]

# first-order level: permuting the statements / renaming the variables of a statement does not change `SemFO.run`
MODULE_FO = "ProbLogProofs.Properties.C07FO"
THEOREMS_FO = [
    "ProbLogProofs.C07FO.C07FO_run_rename_choices",
    "ProbLogProofs.C07FO.C07FO_stmt_perm",
    "ProbLogProofs.C07FO.C07FO_stmt_perm_run",
    "ProbLogProofs.C07FO.C07FO_var_rename",
    "ProbLogProofs.C07FO.C07FO_body_perm",
    "ProbLogProofs.C07FO.C07FO_body_perm_run",
]

MANIFEST = {
    "level": "other",
    "technique": "Lean 4 specification (Sem) with permutation-invariance theorems, executed as the single reference for all "
                 "seeded permutations of each generated program run through the real engine",
    "text": "Partial by nature: the permutation invariance is a theorem about the specification (the least model of the "
            "ground program does not depend on clause or body order); the real engine's order sensitivity (clause index, "
            "left-to-right conjunction, cycle closing) is explored: all permuted runs are compared with one specification "
            "value, not pairwise.",
    "note": "Trusted: Lean kernel; the serialiser of first-order programs (instantiation is Lean's SemFO.ground, C01FO/C07FO). The engine is not modelled. Known finding F1 (false "
            "NegativeCycle) is order dependent and is reported as KNOWN-FINDING.",
    "design_ref": "DESIGN.md §6 C07",
}


def permute(P, rng):
    import copy
    Q = copy.deepcopy(P)
    rng.shuffle(Q["stmts"])
    new = []
    for s in Q["stmts"]:
        bi = {"rule": 2, "prule": 3, "ad": 2}.get(s[0])
        if bi is not None:
            pos = [b for b in s[bi] if b[0] != "neg"]
            neg = [b for b in s[bi] if b[0] == "neg"]
            rng.shuffle(pos)
            rng.shuffle(neg)
            s = list(s)
            s[bi] = pos + neg
            s = tuple(s)
        new.append(s)
    Q["stmts"] = new
    rng.shuffle(Q["queries"])
    rng.shuffle(Q["evidence"])
    return Q


def src_mixed(P, rng):
    """Source text with query/evidence statements interleaved with the clauses (statement order)."""
    lines = [spine.stmt_src(s) for s in P["stmts"]]
    extra = ["query(%s)." % spine.atom_s(q) for q in P["queries"]]
    extra += [("evidence(%s)." if v else "evidence(\\+%s).") % spine.atom_s(a) for a, v in P["evidence"]]
    for e in extra:
        lines.insert(rng.randrange(len(lines) + 1), e)
    return "\n".join(lines)


def variants(P, seed):
    rng = random.Random(seed)
    out = [("original", spine.to_src(P), {})]
    for k in range(K[0]):
        Q = permute(P, rng)
        out.append(("perm#%d" % k, src_mixed(Q, rng) if rng.random() < 0.5 else spine.to_src(Q),
                    {"ground": {"propagate_evidence": rng.random() < 0.5}}))
    return out


K = [5]


def run(ctx):
    K[0] = ctx.budget(5, 20)
    ctx.rule = ("generated programs x seeded permutations of statements / bodies / query and evidence order; a case = one "
                "program with its permutation seed; non-trivial = at least one query instance and more than one world")
    return cfgprop.run(ctx, MODULE, THEOREMS, variants, nq=50, nt=500, level="other", gen_kwargs={"disjunction": True},
                       extra_modules=[(MODULE_FO, THEOREMS_FO)],
                       explanation="Specification-level permutation invariance is proved in Lean (see obligation list); "
                                   "the engine is compared with the specification on every permuted run (exploration of the "
                                   "order quantifier, not a proof about the engine).")
