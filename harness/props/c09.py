"""C09 — cycle breaking and Clark's completion preserve the ground program's meaning.

Tie (exact correspondence, on every ground program of the generator and on and/or graphs built directly through the
LogicFormula API): `Cycles.breakCycles` vs `problog.cycles.break_cycles` (node array, weights, names, constraints of the
resulting LogicDAG) and `Clark.clark` vs `clarks_completion` (atom count and clause multiset, AD clauses included).
Search oracle (Python, independent of the Lean model): truth tables over all atom assignments - least-fixpoint
(alternating fixpoint for negation) value of every labelled node of the cyclic formula = its value in the LogicDAG;
the bottom-up valuation of the DAG satisfies the CNF and no other extension of the atom assignment does
(exhaustive when <= 12 compound nodes, otherwise single-flip neighbourhood)."""
import itertools
import json

import spine
from lib import Infra

MODULE = "ProbLogProofs.Properties.C09"
THEOREMS = [
    "ProbLogProofs.C09.C09_clark_node_iff",
    "ProbLogProofs.C09.C09_keyVal_litVal",
    "ProbLogProofs.C09.C09_clark_split",
    "ProbLogProofs.C09.C09_clark_nodes_ok",
    "ProbLogProofs.C09.C09_clark_unique",
    "ProbLogProofs.C09.C09_clark_unique_cnf",
    "ProbLogProofs.C09.C09_clark_exists",
    "ProbLogProofs.C09.C09_clark_unique_model",
    "ProbLogProofs.C09.C09_clark_count",
    "ProbLogProofs.C09.C09_clark_constraints",
    "ProbLogProofs.C09.C09_clark_constraints_exactly_one",
    "ProbLogProofs.C09.C09_clark_constraints_all",
    "ProbLogProofs.C09.C09_clark_models",
    "ProbLogProofs.C09.C09_clark_node_iff_needs_no_true_child",
    "ProbLogProofs.C09.C09_clark_carry",
]

MODULE_CYCLES = "ProbLogProofs.Properties.C09Cycles"
THEOREMS_CYCLES = [
    "ProbLogProofs.C09.C09_cutEval_iff_der",
    "ProbLogProofs.C09.C09_cutEval_fuel_irrelevant",
    "ProbLogProofs.C09.C09_loop_cut_definite",
    "ProbLogProofs.C09.C09_lfp_stage_der",
    "ProbLogProofs.C09.C09_cutEval_eq_lfp",
    "ProbLogProofs.C09.C09_lfp_stable",
    "ProbLogProofs.C09.C09_lfp_fixpoint_conj",
    "ProbLogProofs.C09.C09_lfp_fixpoint_disj",
    "ProbLogProofs.C09.C09_lfp_least",
    "ProbLogProofs.C09.C09_cutEval_eq_reduct_lfp",
    "ProbLogProofs.C09.C09_cut_stable_model",
    "ProbLogProofs.C09.C09_stable_model_unique",
    "ProbLogProofs.C09.C09_loop_cut_stratified",
    "ProbLogProofs.C09.C09_positive_is_stratified",
]
REFUTATIONS_CYCLES = ["ProbLogProofs.C09.C09_cutEval_eq_lfp_needs_positive", "ProbLogProofs.C09.C09_exNeg_not_stratified"]

MODULE_UNROLL = "ProbLogProofs.Properties.C09Unroll"
THEOREMS_UNROLL = [
    "ProbLogProofs.C09.C09_unroll",
    "ProbLogProofs.C09.C09_unroll_root",
    "ProbLogProofs.C09.C09_breakSimple_total",
    "ProbLogProofs.C09.C09_breakSimple_correct",
    "ProbLogProofs.C09.C09_breakSimple_correct_positive",
    "ProbLogProofs.C09.C09_breakSimple_roots",
    "ProbLogProofs.C09.C09_breakNode_valid",
    "ProbLogProofs.C09.C09_breakNode_root",
    "ProbLogProofs.C09.C09_breakNode_correct",
    "ProbLogProofs.C09.C09_breakCycles_correct",
    "ProbLogProofs.C09.C09_breakNode_eq_S",
    "ProbLogProofs.C09.C09_breakCycles_eq_S",
    "ProbLogProofs.C09.C09_transOK_nil",
    "ProbLogProofs.C09.C09_detOK_no_weights",
]
REFUTATIONS_UNROLL = ["ProbLogProofs.C09.C09_unroll_needs_stratified", "ProbLogProofs.C09.C09_reuse_not_cutEval"]

MANIFEST = {
    "level": "proof",
    "technique": "Lean 4 theorems about hand-written models of cycles.py and clarks_completion + exact correspondence "
                 "with the real transformations on every generated ground program + truth-table oracle",
    "text": "Lean (all stores, all atom assignments): the model of break_cycles - including the translation-reuse table, "
            "the query loop and the evidence loop - builds an acyclic store whose bottom-up value of every labelled node is "
            "the perfect-model (least fixpoint of the reduct) value of the cyclic source, for stratified sources "
            "(C09_breakCycles_correct, via C09_unroll / C09_breakNode_valid and the loop-cut theorems); Clark's completion "
            "of an acyclic store has exactly one model per atom assignment, the bottom-up evaluation, with AD clauses = "
            "exactly-one, weights/names/constraints carried over (C09_clark_*). The models are the same algorithms as "
            "cycles.py/cnf_formula.py and are compared exactly (nodes, clauses, weights, names, constraints) with the real "
            "output on every instance.",
    "note": "Trusted: Lean kernel + standard axioms; harness. Hand-written models tied by correspondence on the "
            "instances run. Not covered by the unrolling theorem: the evidence-propagation table (ev = some _) and names labelled "
            "'named'. The equational form of the reuse invariant is false (refutation C09_reuse_not_cutEval, replayed on the "
            "real code: the reused node is only sandwiched between cut value and perfect-model value), the reuse rule is sound.",
    "design_ref": "DESIGN.md §5.2, §6 C09",
}


# ------------------------------------------------------------------------------------------------ oracle
def node_eval_lfp(f, asg):
    """Well-founded value of every node of a (possibly cyclic) LogicFormula under an atom assignment {node: bool}.
    Alternating fixpoint; returns (T, U) as lists indexed by node-1."""
    n = len(f._nodes)
    kinds = [type(x).__name__ for x in f._nodes]

    def gamma(ctx):
        cur = [False] * n
        for i in range(n):
            if kinds[i] == "atom":
                cur[i] = asg.get(i + 1, False)
        changed = True
        while changed:
            changed = False
            for i in range(n):
                if kinds[i] == "atom" or cur[i]:
                    continue
                vals = []
                for c in f._nodes[i].children:
                    if c is None:
                        vals.append(False)
                    elif c == 0:
                        vals.append(True)
                    elif c > 0:
                        vals.append(cur[c - 1])
                    else:
                        j = -c - 1
                        vals.append((not asg.get(j + 1, False)) if kinds[j] == "atom" else (not ctx[j]))
                v = all(vals) if kinds[i] == "conj" else any(vals)
                if v:
                    cur[i] = True
                    changed = True
        return cur
    t = [False] * n
    for _ in range(n + 2):
        u = gamma(t)
        t2 = gamma(u)
        if t2 == t:
            return t, u
        t = t2
    return t, gamma(t)


def dag_eval(f, asg):
    vals = []
    for i, nd in enumerate(f._nodes):
        ty = type(nd).__name__
        if ty == "atom":
            vals.append(asg.get(i + 1, False))
        else:
            cv = []
            for c in nd.children:
                b = vals[abs(c) - 1]
                cv.append(b if c > 0 else not b)
            vals.append(all(cv) if ty == "conj" else any(cv))
    return vals


def key_val(vals, k):
    if k is None:
        return False
    if k == 0:
        return True
    return vals[k - 1] if k > 0 else not vals[-k - 1]


def atom_key(nd):
    return repr(nd.identifier)


def oracle(lf, dag, cnf, max_atoms=12, max_flip=10, seconds=6.0):
    """Returns list of problems (strings). The enumeration of atom assignments stops after `seconds` (cost cap: the
    work per assignment is exponential in the number of compound nodes up to `max_flip`)."""
    import time as _time
    t_start = _time.time()
    probs = []
    atoms_lf = {atom_key(nd): i + 1 for i, nd in enumerate(lf._nodes) if type(nd).__name__ == "atom"}
    atoms_dag = {atom_key(nd): i + 1 for i, nd in enumerate(dag._nodes) if type(nd).__name__ == "atom"}
    keys = sorted(set(atoms_lf) | set(atoms_dag))
    if len(keys) > max_atoms:
        return None
    labelled_lf = {(str(n), l): k for n, k, l in lf.get_names_with_label() if l != lf.LABEL_NAMED}
    labelled_dag = {(str(n), l): k for n, k, l in dag.get_names_with_label() if l != dag.LABEL_NAMED}
    if set(labelled_lf) != set(labelled_dag):
        return ["labels differ: %s vs %s" % (sorted(labelled_lf), sorted(labelled_dag))]
    ncomp = sum(1 for nd in dag._nodes if type(nd).__name__ != "atom")
    comp_ids = [i + 1 for i, nd in enumerate(dag._nodes) if type(nd).__name__ != "atom"]
    clauses = [c for c in cnf._contents()[1]]
    node_clauses = clauses[:len(clauses) - sum(len(c.as_clauses()) for c in cnf.constraints())] if cnf.constraints() else clauses
    ev_lookup = getattr(lf, "lookup_evidence", None)
    for bits in itertools.product([False, True], repeat=len(keys)):
        if _time.time() - t_start > seconds:
            break
        a = dict(zip(keys, bits))
        asg_lf = {atoms_lf[k]: v for k, v in a.items() if k in atoms_lf}
        asg_dag = {atoms_dag[k]: v for k, v in a.items() if k in atoms_dag}
        t, u = node_eval_lfp(lf, asg_lf)
        dv = dag_eval(dag, asg_dag)
        if ev_lookup:
            # with propagated evidence the DAG is only required to agree on assignments consistent with the evidence
            ok = True
            for (nm, l), k in labelled_lf.items():
                if l == lf.LABEL_EVIDENCE_POS and not key_val(t, k):
                    ok = False
                if l == lf.LABEL_EVIDENCE_NEG and key_val(t, k):
                    ok = False
            if not ok:
                continue
        for (nm, l), k in labelled_lf.items():
            if k is not None and k != 0 and t[abs(k) - 1] != u[abs(k) - 1]:
                continue  # undefined in the well-founded model: no requirement
            if key_val(t, k) != key_val(dv, labelled_dag[(nm, l)]):
                probs.append("node %s (%s): least-model value %s, LogicDAG value %s under %s" % (
                    nm, l, key_val(t, k), key_val(dv, labelled_dag[(nm, l)]), a))
                return probs
        # Clark: the DAG valuation is a model of the node clauses ...
        def sat(vals, cl):
            return any((vals[x - 1] if x > 0 else not vals[-x - 1]) for x in cl)
        for cl in node_clauses:
            if not sat(dv, cl):
                probs.append("CNF clause %s false under the DAG valuation for %s" % (cl, a))
                return probs
        # ... and the only one extending the atom assignment
        if ncomp <= max_flip:
            for flips in itertools.product([False, True], repeat=ncomp):
                if not any(flips):
                    continue
                v2 = list(dv)
                for cid, fl in zip(comp_ids, flips):
                    if fl:
                        v2[cid - 1] = not v2[cid - 1]
                if all(sat(v2, cl) for cl in node_clauses):
                    probs.append("second CNF model extending %s: flip nodes %s" % (a, [c for c, fl in zip(comp_ids, flips) if fl]))
                    return probs
        else:
            for cid in comp_ids:
                v2 = list(dv)
                v2[cid - 1] = not v2[cid - 1]
                if all(sat(v2, cl) for cl in node_clauses):
                    probs.append("second CNF model extending %s: flip node %d" % (a, cid))
                    return probs
    # weights / constraints carried over
    if dict(cnf.get_weights()) != dict(dag.get_weights()):
        probs.append("weights not carried over to the CNF")
    return probs


# ------------------------------------------------------------------------------------------------ direct graphs
def gen_graph(rng):
    """A cyclic and/or graph built through the LogicFormula API: mutable disjunctions closed into positive cycles,
    nested SCCs, shared sub-DAGs, negation on acyclic parts, labelled queries/evidence."""
    from problog.formula import LogicFormula
    from problog.logic import Term
    f = LogicFormula()
    natoms = rng.randint(2, 5)
    atoms = [f.add_atom(i + 1, float(spine.F(rng.randint(1, 9), 10))) for i in range(natoms)]
    if rng.random() < 0.4:
        g = (77, ())
        atoms += [f.add_atom(50 + i, 0.2, group=g) for i in range(rng.randint(2, 3))]
    nmut = rng.randint(1, 4)
    muts = [f.add_or([], placeholder=True, readonly=False, name=Term("m%d" % i)) for i in range(nmut)]
    pool = list(atoms) + list(muts)
    acyc = list(atoms)  # nodes that do not depend on mutables (safe to negate)
    for _ in range(rng.randint(2, 8)):
        k = rng.randint(1, 3)
        if rng.random() < 0.5:
            cs = [rng.choice(pool) for _ in range(k)]
            if rng.random() < 0.3 and acyc:
                cs.append(-rng.choice(acyc))
            n = f.add_and(cs)
        else:
            cs = [rng.choice(pool) for _ in range(k)]
            n = f.add_or(cs)
        if n is not None and n != 0:
            pool.append(n)
            if all(abs(c) in [abs(x) for x in acyc] for c in cs):
                acyc.append(n)
    for m in muts:
        for _ in range(rng.randint(1, 3)):
            f.add_disjunct(m, rng.choice(pool))
    for i in range(rng.randint(1, 3)):
        f.add_name(Term("q%d" % i), rng.choice(pool), f.LABEL_QUERY)
    if rng.random() < 0.5:
        k = rng.choice(acyc)
        if rng.random() < 0.4:
            k = -k      # evidence atom whose ground node is a negative literal (e.g. `q :- \\+a. evidence(q)`)
        f.add_name(Term("e0"), k, rng.choice([f.LABEL_EVIDENCE_POS, f.LABEL_EVIDENCE_NEG]))
    return f


def run(ctx):
    from problog.formula import LogicDAG
    from problog.cnf_formula import CNF
    ctx.rule = ("ground programs of the typed C01 generator (cyclic/acyclic, negation, ADs, evidence with and without "
                "propagation) and and/or graphs built directly through the LogicFormula API; distinct = distinct "
                "serialised source store; non-trivial = at least one compound node")
    ctx.proof_phase(MODULE, THEOREMS)
    ctx.proof_phase(MODULE_CYCLES, THEOREMS_CYCLES, refutations=REFUTATIONS_CYCLES)
    ctx.proof_phase(MODULE_UNROLL, THEOREMS_UNROLL, refutations=REFUTATIONS_UNROLL)
    drv = ctx.driver("Drivers.Spine")
    rng = ctx.sub_rng("programs")
    nprog = ctx.budget(150, 1200)
    ngraph = ctx.budget(150, 1500)
    cases = []
    for i in range(nprog):
        P = spine.gen_program(rng)
        src = spine.to_src(P)
        prop = rng.random() < 0.4
        st = spine.run_pipeline(src, propagate_evidence=prop, keep_nnf=False, timeout=20)
        if st.error and st.error[0] in ("parse", "ground"):
            ctx.count("skipped:" + st.error[1])
            continue
        if not hasattr(st, "lf"):
            continue
        cases.append(("program", src, st.lf, prop))
    for i in range(ngraph):
        cases.append(("graph", None, gen_graph(rng), False))
    lines, meta = [], []
    first_problem = None
    first_diff = None
    for kind, src, lf, prop in cases:
        m = spine.Mapper()
        try:
            dag = spine.with_timeout(20, LogicDAG.create_from, lf)
            cnf = CNF.create_from(dag)
        except spine.Timeout:
            ctx.count("timeout")
            continue
        except Exception as e:
            ctx.count("transform-exception:" + type(e).__name__)
            if spine.is_problog_error(type(e).__name__):
                continue
            ctx.fail("break_cycles/clarks_completion raised %s on %s" % (type(e).__name__, src or "graph"),
                     {"src": src, "store": spine.ser_store(lf, m)}, {"kind": "exception", "exc": type(e).__name__})
            continue
        s_lf = spine.ser_store(lf, m)
        ev = "-"
        if hasattr(lf, "lookup_evidence"):
            ev = "(%s)" % " ".join("(%d %s)" % (k, spine.k2s(v)) for k, v in lf.lookup_evidence.items())
        ncomp = sum(1 for nd in lf._nodes if type(nd).__name__ != "atom")
        ctx.case(s_lf + ev, nontrivial=ncomp > 0)
        ctx.count(kind)
        ctx.count("cyclic" if any(True for _ in [0] if len(dag) != len(lf)) else "same-size")
        if prop:
            ctx.count("propagate_evidence")
        if len(ctx.samples) < 3:
            ctx.sample({"kind": kind, "src": src, "store": s_lf[:600]})
        s_dag = spine.ser_store(dag, m)
        lines.append("BC %s %s f (opts t f f f 0 f)" % (s_lf, ev))
        meta.append(("BC", src, s_lf, spine.canon_store(s_dag)))
        lines.append("CLARK %s" % s_dag)
        cl = sorted(tuple(sorted(c)) for c in cnf._contents()[1])
        meta.append(("CLARK", src, s_dag, (cnf.atomcount, cl)))
        probs = oracle(lf, dag, cnf, max_atoms=ctx.budget(9, 13), max_flip=ctx.budget(8, 10), seconds=ctx.budget(4.0, 20.0))
        if probs is None:
            ctx.count("oracle-skipped(too many atoms)")
        elif probs and first_problem is None:
            first_problem = (src, s_lf, probs)
    if drv is not None:
        outs = drv.run(lines)
        for out, (op, src, inp, exp) in zip(outs, meta):
            if op == "BC":
                got = spine.canon_store(out)
                ok = got == exp
            else:
                mm = out.split(" ", 1)
                try:
                    cls = sorted(tuple(sorted(int(x) for x in c.split())) for c in
                                 __import__("re").findall(r"\(([^()]*)\)", mm[1][1:-1]))
                    got = (int(mm[0]), cls)
                except Exception:
                    got = out
                ok = got == exp
            if not ok and first_diff is None:
                first_diff = (op, src, inp, str(got)[:1500], str(exp)[:1500])
    if first_problem:
        src, s_lf, probs = first_problem
        ctx.fail("%s (program: %s)" % (probs[0], (src or s_lf)[:400]), {"src": src, "store": s_lf, "problems": probs},
                 {"kind": "truth-table"})
    if first_diff:
        op, src, inp, got, exp = first_diff
        ctx.disagree("%s model vs implementation" % op, "input %s | model %s | implementation %s" % ((src or inp)[:500], got, exp))
    ctx.obligation("correspondence: breakCycles/clark model = implementation on %d instances" % len(meta),
                   first_diff is None and drv is not None, "" if first_diff is None else first_diff[0])
    return ctx.finish("proof")
