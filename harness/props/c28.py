"""C28 — Python and Prolog values convert losslessly.

Tie: hand-written Lean model (lean/ProbLogModel/PyPl.lean) of py2pl / pl2py / list2term / term2list, compared
exactly with problog.pypl / problog.logic on generated nested values and generated terms (floats as exact
rationals of the doubles).  The model has two string decoders (`cur` = current pl2py, `fix` = the proposed patch
repo_patches/C28_quotes.diff); which one the implementation has is probed on every run and recorded.
Search oracle (independent of the model): `pl2py(py2pl(v))` must be `v` (type-strict) for every generated value
without length-one tuples; exported functions called from generated programs must be seen with exactly their
Python result.  Failing values are shrunk and classified by the model's `why` (proved sound in Lean).
Stream "signatures" (harness/extern_util.py): generated problog_export / _nondet / _raw declarations called with every
output unbound / bound to the right value / bound to a wrong value / partially bound; oracle "an answer iff every bound
output unifies with the converted result", and the Lean model of the wrapper (ProbLogModel/Extern.lean) on the ground calls."""
import json
import math
import os
import sys
import tempfile
import types

from lib import Infra, q
import pypl_util as U
import extern_util as E

MODULE = "ProbLogProofs.Properties.C28"
THEOREMS = [
    "ProbLogProofs.C28.C28_roundtrip_fix",
    "ProbLogProofs.C28.C28_fix_strings_good",
    "ProbLogProofs.C28.C28_roundtrip_current",
    "ProbLogProofs.C28.C28_current_strings_good",
    "ProbLogProofs.C28.C28_export_list_roundtrip",
    "ProbLogProofs.C28.C28_why_ok_roundtrip",
    "ProbLogProofs.C28.C28_export_decision",
    "ProbLogProofs.C28.C28_export_nondet_decision",
]
REFUTATIONS = [
    "ProbLogProofs.C28.C28_quotes_refuted",
    "ProbLogProofs.C28.C28_quotes_witness",
    "ProbLogProofs.C28.C28_trailing_tuple_refuted",
    "ProbLogProofs.C28.C28_trailing_tuple_flattened",
    "ProbLogProofs.C28.C28_float_precision_refuted",
    "ProbLogProofs.C28.C28_singleton_tuple",
    "ProbLogProofs.C28.C28_export_reversed_bit_refuted",
]

MANIFEST = {
    "level": "proof",
    "technique": "Lean 4 theorems about a hand-written model of pypl.py (py2pl/pl2py), list2term/term2list and "
                 "Constant's float rounding + exact correspondence of model and implementation on generated nested "
                 "values and terms + independent round-trip oracle on the real code + exported functions called "
                 "from generated programs + model of the problog_export wrapper's call-mode / unification loop with "
                 "generated signatures and binding patterns",
    "text": "Lean theorems: pl2py(py2pl(v)) = v for every plain value in the decidable domain `good` (ints, floats "
            "with at most 15 decimals, strings restored by the string decoder, lists, tuples of length != 1 whose "
            "last element is not a tuple of length >= 2), term2list(list2term(xs)) = xs on the same domain, and "
            "refutations with witnesses for the shapes the property text includes but the code loses (quotes in "
            "strings for the current decoder, trailing nested tuple, floats beyond 15 decimals). Every run compares "
            "model and implementation exactly on generated values/terms, searches for round-trip failures on the "
            "real code with an independent oracle, classifies shrunk failures with the model's (proved sound) "
            "domain classifier, and calls problog_export functions from generated programs. Wrapper of problog_export / "
            "_nondet / _raw (Lean model of _extract_callmode + check_mode + the unification loop): a call whose bound "
            "outputs have the declared types has an answer iff every bound output equals the converted result, with "
            "exactly the converted results (C28_export_decision, C28_export_nondet_decision); every run calls generated "
            "signatures (1-3 inputs, 1-3 outputs of int/float/str/list/term) with each output unbound / bound right / "
            "bound wrong / partially bound, directly and through program text, against a Python oracle and the model.",
    "note": "Trusted: Lean kernel, standard axioms, harness and driver glue. The model is hand-written and tied to "
            "the code on the generated inputs only. ValueError branches (unsupported Python type, None) are outside "
            "the model's input types and checked on the real code only. Round-trip domain is exact for 'plain' "
            "values; Term objects passed through py2pl are covered by the correspondence, not by the theorem. "
            "The wrapper model treats call arguments as unbound or ground (unification = equality); partially bound "
            "outputs are checked against the Python oracle only.",
    "design_ref": "DESIGN.md §6 C28",
}

ALPHA = "abcxyzABC012 _-.,;:!?()[]{}<>/\\+*=#%&|~^@éλ"
SPECIAL_STR = ["[]", "()", ".", ",", "", " ", "X", "_", "a b", "1", "1.5", "\\"]
SPECIAL_QUOTED = ["'", '"', '""', "''", "'a'", '"a"', 'a"b', "it's", '"a', "a'", "'\"", "\"'\""]
SHORT_FLOATS = [0.0, 0.5, -1.25, 2.0, 1e10, 123.456, 0.1, 0.3, 1e-15, 3.14, -7.0, 1e300, 0.000001, 2.0 ** -10, 1e22,
                -0.0, 4503599627370497.5]
LONG_FLOATS = [1 / 3, 0.1 + 0.2, 1e-16, 2.0 ** -16, 2.0 ** -17, 5e-324, math.pi, 2.0 ** -52, 1.0 + 2.0 ** -52,
               0.30000000000000004, 1e-300, 3.0 * 2.0 ** -17]


def gen_str(rng, quotes):
    r = rng.random()
    if r < 0.12:
        return rng.choice(SPECIAL_STR)
    if quotes and r < 0.4:
        return rng.choice(SPECIAL_QUOTED)
    n = rng.choice([1, 1, 2, 3, 5, 8])
    chars = ALPHA + ("\"'" * 8 if quotes else "")
    s = "".join(rng.choice(chars) for _ in range(n))
    if quotes and not any(c in s for c in "\"'"):
        k = rng.randrange(len(s) + 1)
        s = s[:k] + rng.choice("\"'") + s[k:]
    return s


def gen_float(rng, long_):
    if long_:
        return rng.choice(LONG_FLOATS) if rng.random() < 0.5 else rng.uniform(-10, 10) * 10.0 ** rng.randrange(-8, 3)
    if rng.random() < 0.4:
        return rng.choice(SHORT_FLOATS)
    return round(rng.uniform(-1000, 1000), rng.randrange(0, 10))


def gen_value(rng, depth, cfg, top=True):
    """cfg: set of allowed defect shapes among {'quote','float15','tuple1','tailtuple'}."""
    r = rng.random()
    if depth <= 0 or (not top and r < 0.45):
        k = rng.random()
        if k < 0.4:
            return rng.choice([0, 1, -1, 2, 7, 42, -13, 10 ** 6, 2 ** 70, -(2 ** 64)])
        if k < 0.65:
            return gen_float(rng, "float15" in cfg and rng.random() < 0.5)
        return gen_str(rng, "quote" in cfg and rng.random() < 0.6)
    if r < 0.75 or top and r < 0.8:
        n = rng.choice([0, 1, 1, 2, 2, 3, 4])
        return [gen_value(rng, depth - 1, cfg, False) for _ in range(n)]
    n = rng.choice([0, 2, 2, 3, 4])
    if "tuple1" in cfg and rng.random() < 0.4:
        n = 1
    xs = [gen_value(rng, depth - 1, cfg, False) for _ in range(n)]
    if xs:
        if "tailtuple" in cfg and rng.random() < 0.6:
            m = rng.choice([2, 2, 3])
            xs[-1] = tuple(gen_value(rng, depth - 2, cfg - {"tailtuple", "tuple1"}, False) for _ in range(m))
            if type(xs[-1][-1]) is tuple and len(xs[-1][-1]) >= 2:
                xs[-1] = xs[-1][:-1] + (0,)
        elif "tailtuple" not in cfg:
            while type(xs[-1]) is tuple and len(xs[-1]) >= 2:
                xs[-1] = gen_value(rng, depth - 1, cfg, False)
    return tuple(xs)


def gen_pl(rng, depth):
    """Arbitrary objects for pl2py / term2list (not only images of py2pl)."""
    from problog.logic import Term, Constant, Var
    r = rng.random()
    if depth <= 0 or r < 0.35:
        k = rng.random()
        if k < 0.2:
            return Constant(rng.choice([0, 1, -5, 2 ** 65]))
        if k < 0.3:
            return Constant(rng.choice(SHORT_FLOATS + LONG_FLOATS))
        if k < 0.55:
            s = rng.choice(['"ab"', "'ab'", "ab", "[]", "()", '"[]"', '"a"b"', "\"it's\"", '"', "'", "", '"\'x\'"', "'\"x\"'", ".", ","])
            return Constant(s)
        if k < 0.8:
            return Term(rng.choice(["[]", "()", "a", "foo", "'A b'", ".", ",", "X"]))
        if k < 0.9:
            return Var(rng.choice(["X", "_", "A1", "[]", "()"]))
        return rng.choice([0, 3, -2])
    if r < 0.55:     # lists, proper or not
        n = rng.randrange(1, 4)
        tail = Term("[]") if rng.random() < 0.7 else gen_pl(rng, depth - 1)
        for _ in range(n):
            tail = Term(".", gen_pl(rng, depth - 1), tail)
        return tail
    if r < 0.75:
        n = rng.randrange(1, 4)
        tail = gen_pl(rng, depth - 1)
        for _ in range(n):
            tail = Term(",", gen_pl(rng, depth - 1), tail)
        return tail
    if r < 0.9:
        return Term(rng.choice(["f", "[]", "()", "-", "g"]), gen_pl(rng, depth - 1), gen_pl(rng, depth - 1))
    n = rng.choice([1, 3])
    return Term(rng.choice(["f", "[]", "()", ".", ","]), *[gen_pl(rng, depth - 1) for _ in range(n)])


def has_tuple1(v):
    if type(v) in (list, tuple):
        return (type(v) is tuple and len(v) == 1) or any(has_tuple1(x) for x in v)
    return False


def has_nan(v):
    if type(v) in (list, tuple):
        return any(has_nan(x) for x in v)
    return type(v) is float and v != v


def shrinks(v):
    if type(v) in (list, tuple):
        mk = type(v)
        for x in v:
            yield x
        for i in range(len(v)):
            yield mk(v[:i] + v[i + 1:])
        for i in range(len(v)):
            for s in shrinks(v[i]):
                yield mk(list(v[:i]) + [s] + list(v[i + 1:]))
    elif type(v) is str:
        for i in range(len(v)):
            yield v[:i] + v[i + 1:]
    elif type(v) is int and v != 0:
        yield 0
    elif type(v) is float and v != 0.0:
        yield 0.0


def shrink(v, pred, limit=4000):
    cur, n = v, 0
    changed = True
    while changed and n < limit:
        changed = False
        for c in shrinks(cur):
            n += 1
            if pred(c):
                cur, changed = c, True
                break
    return cur


# --------------------------------------------------------------------------- problog_export through the engine
LIB_SRC = '''
from problog.extern import problog_export
import c28_channel as ch

@problog_export('+int', '-int')
def val_int(i):
    return ch.VALUES[i]

@problog_export('+int', '-float')
def val_float(i):
    return ch.VALUES[i]

@problog_export('+int', '-str')
def val_str(i):
    return ch.VALUES[i]

@problog_export('+int', '-list')
def val_list(i):
    return ch.VALUES[i]

@problog_export('+int', '-int', '-str', '-list')
def val_multi(i):
    return ch.VALUES[i]

@problog_export('+int', '+list', '-list')
def echo_list(i, a):
    ch.LOG[i] = a
    return a

@problog_export('+int', '+str', '-str')
def echo_str(i, a):
    ch.LOG[i] = a
    return a

@problog_export('+int', '+int', '-int')
def echo_int(i, a):
    ch.LOG[i] = a
    return a

@problog_export('+int', '+float', '-float')
def echo_float(i, a):
    ch.LOG[i] = a
    return a
'''

TEXT_ALPHA = "abcxyzABC012 _"


def gen_text_value(rng, depth, top=True):
    """Values that can be written in program text without touching parser corner cases."""
    r = rng.random()
    if depth <= 0 or (not top and r < 0.5):
        k = rng.random()
        if k < 0.4:
            return rng.choice([0, 1, 2, 7, 42, 10 ** 6, 2 ** 70])
        if k < 0.6:
            return rng.choice([0.5, 2.25, 3.0, 0.125, 10.75, 0.1])
        return "".join(rng.choice(TEXT_ALPHA) for _ in range(rng.randrange(1, 6)))
    if r < 0.8 or top:
        return [gen_text_value(rng, depth - 1, False) for _ in range(rng.choice([0, 1, 2, 3]))]
    xs = [gen_text_value(rng, depth - 1, False) for _ in range(rng.choice([2, 3]))]
    while type(xs[-1]) is tuple:
        xs[-1] = gen_text_value(rng, 0, False)
    return tuple(xs)


def text_of(v):
    if type(v) is str:
        return '"%s"' % v
    if type(v) is list:
        return "[" + ", ".join(text_of(x) for x in v) + "]"
    if type(v) is tuple:
        return "(" + ", ".join(text_of(x) for x in v) + ")"
    return repr(v)


def gen_specs(rng):
    """One program = a list of (function, python value) calls."""
    specs = []
    for _ in range(rng.randrange(12, 28)):
        kind = rng.choice(["val_int", "val_float", "val_str", "val_list", "val_list", "val_multi",
                           "echo_list", "echo_list", "echo_str", "echo_int", "echo_float", "bound"])
        if kind == "val_int":
            v = rng.choice([0, -3, 17, 2 ** 80, -(10 ** 20)])
        elif kind == "val_float":
            v = gen_float(rng, rng.random() < 0.3)
        elif kind == "val_str":
            v = gen_str(rng, rng.random() < 0.3) or "e"
        elif kind == "val_list":
            cfg = set(rng.choice([[], [], [], ["quote"], ["float15"], ["tailtuple"]]))
            v = gen_value(rng, 3, cfg)
            v = v if type(v) is list else [v]
        elif kind == "val_multi":
            v = (rng.randrange(-9, 99), gen_str(rng, False) or "e", [gen_value(rng, 2, set())])
        elif kind == "echo_list":
            v = gen_text_value(rng, 3)
        elif kind == "echo_str":
            v = "".join(rng.choice(TEXT_ALPHA) for _ in range(rng.randrange(1, 6)))
        elif kind == "echo_int":
            v = rng.choice([0, 5, 123456789012345678901234567890])
        elif kind == "echo_float":
            v = rng.choice([0.5, 2.25, 10.75, 0.1, 3.0])
        else:   # output argument already bound: must succeed iff it unifies with the result
            v = rng.randrange(0, 50)
        specs.append((kind, v))
    return specs


def run_programs(ctx, drv, variant, programs, report):
    """Programs calling the exported functions; `report(what, replay, sig)` on an oracle failure."""
    from problog.program import PrologString
    from problog.engine import DefaultEngine
    from problog.pypl import pl2py, py2pl
    from problog.logic import list2term
    ch = types.ModuleType("c28_channel")
    ch.VALUES, ch.LOG = {}, {}
    sys.modules["c28_channel"] = ch
    tmp = tempfile.mkdtemp(prefix="c28_")
    libpath = os.path.join(tmp, "c28lib.py")
    open(libpath, "w").write(LIB_SRC)
    diffs = []
    lines, expect = [], []      # model lines / (description, actual-encoded)
    try:
        for pi, specs in enumerate(programs):
            ch.VALUES.clear()
            ch.LOG.clear()
            qs, meta = [], {}
            for i, (kind, v) in enumerate(specs):
                ch.VALUES[i] = v
                if kind in ("val_int", "val_float", "val_str", "val_list"):
                    qs.append("query(%s(%d,_))." % (kind, i))
                elif kind == "val_multi":
                    qs.append("query(val_multi(%d,_,_,_))." % i)
                elif kind in ("echo_list", "echo_str", "echo_int", "echo_float"):
                    qs.append("query(%s(%d,%s,_))." % (kind, i, text_of(v)))
                elif kind == "bound":
                    qs.append("query(val_int(%d,%d))." % (i, v))
                    qs.append("query(val_int(%d,%d))." % (i, v + 1))
                else:
                    raise Infra("unknown exported function " + kind)
                meta[i] = kind
            prog = ":- use_module('%s').\n%s\n" % (libpath, "\n".join(qs))
            ctx.programs += 1
            eng = DefaultEngine()
            db = eng.prepare(PrologString(prog))
            gp = eng.ground_all(db)
            seen = {}
            for name, node in gp.queries():
                seen.setdefault(int(name.args[0]), []).append((name, node))
            for i, kind in meta.items():
                ctx.case("prog%d:%s:%r" % (pi, kind, ch.VALUES[i]))
                ctx.count("export " + kind)
                val = ch.VALUES[i]
                res = seen.get(i, [])
                rp = {"kind": "export", "function": kind, "value": repr(val), "query": [x for x in qs if "(%d," % i in x]}
                try:
                    rp["value_sexp"] = U.enc_val(val)
                except U.NotEncodable:
                    pass
                if kind == "bound":
                    ok = sorted((int(n.args[1]), node) for n, node in res) == [(val, 0), (val + 1, None)]
                    if not ok:
                        report("val_int(%d, bound) answers %s, expected exactly the Python result %d" % (i, res, val), rp,
                               {"kind": "export-bound", "type": "int"})
                    continue
                if len(res) != 1 or res[0][1] != 0:
                    report("%s(%d,…) has answers %s for Python result %r" % (kind, i, res, val), rp,
                           {"kind": "export-no-answer", "type": kind})
                    continue
                ans = res[0][0]
                outs = ans.args[1:] if kind.startswith("val_") else ans.args[2:]
                if kind.startswith("echo_"):
                    if not U.same(ch.LOG.get(i), val):
                        report("%s received %r for program text %s" % (kind, ch.LOG.get(i), text_of(val)), rp,
                               {"kind": "export-input", "type": kind[5:]})
                        continue
                typ = kind.split("_")[1]
                pairs = [(typ, val, outs[0])] if typ != "multi" else list(zip(["int", "str", "list"], val, outs))
                for t, pv, term in pairs:
                    # what ProbLog sees vs the model's conversion of the Python result
                    try:
                        if t == "int":
                            exp = "(ci %d)" % pv
                        elif t == "str":
                            exp = "(a %s)" % q(pv)
                        elif t == "float":
                            exp = None
                            lines.append("py2pl " + U.enc_val(pv))
                            expect.append(("export float %r" % pv, U.enc_pl(term)))
                        else:
                            exp = None
                            lines.append("list2term " + U.enc_val(pv))
                            expect.append(("export list %r" % (pv,), U.enc_pl(term)))
                        if exp is not None and U.canon(exp) != U.canon(U.enc_pl(term)):
                            diffs.append(("export %s %r" % (t, pv), exp, U.enc_pl(term)))
                    except U.NotEncodable:
                        pass
                    # oracle: exactly the Python result
                    if t == "int":
                        ok = type(term.functor) is int and term.functor == pv
                    elif t == "str":
                        ok = type(term.functor) is str and term.functor == pv
                    elif t == "float":
                        ok = U.same(term.functor, pv)
                    else:
                        ok = U.same(pl2py(term), pv)
                    if ok:
                        continue
                    if t == "float":
                        shape = "float15" if U.same(term.functor, round(pv, 15)) else "other"
                        report("exported float %r is seen as %r" % (pv, term.functor), rp,
                               {"kind": "value-changed", "via": "export", "shape": shape})
                    elif t == "list":
                        if has_tuple1(pv):
                            ctx.count("outside property: length-one tuple (export)")
                            continue
                        small = shrink(pv, lambda c: type(c) is list and not has_tuple1(c) and not U.same(pl2py(list2term(c)), c))
                        report.classify(small, "export", "exported list %r is seen as %r" % (small, pl2py(list2term(small))), rp)
                    else:
                        report("exported %s %r is seen as %r" % (t, pv, term.functor), rp,
                               {"kind": "value-changed", "via": "export", "shape": "scalar-" + t})
    finally:
        sys.modules.pop("c28_channel", None)
        try:
            os.unlink(libpath)
            os.rmdir(tmp)
        except OSError:
            pass
    return lines, expect, diffs


# --------------------------------------------------------------------------- main
def run(ctx):
    from problog.pypl import py2pl, pl2py
    from problog.logic import Constant, Term, list2term, term2list
    ctx.rule = ("a case = one generated nested Python value (round trip + py2pl correspondence), one generated term "
                "(pl2py / term2list correspondence) or one exported-function call inside a generated program; "
                "non-trivial = containers or strings/floats (not a bare int)")
    ctx.proof_phase(MODULE, THEOREMS, refutations=REFUTATIONS)
    drv = ctx.driver("Drivers.C28")

    # which string decoder does the implementation have? (current code strips every quote; the patch only the pair)
    probe = pl2py(Constant('"a"b"'))
    variant = "fix" if probe == 'a"b' else "cur"
    ctx.notes.append("string decoder of the implementation: %s (pl2py(Constant('\"a\"b\"')) = %r)" % (variant, probe))

    pending = []     # (minimal value, via, what, replay)

    def report(what, replay, sig):
        ctx.fail(what, replay, sig)

    def classify(small, via, what, replay):
        pending.append((small, via, what, replay))
    report.classify = classify

    def rt_fails(v):
        return not has_tuple1(v) and not has_nan(v) and not U.same(pl2py(py2pl(v)), v)

    # ------------------------------------------------------------------ inputs
    if ctx.replay_in:
        rep = json.load(open(ctx.replay_in))["replay"]
        if rep.get("kind") == "export-sig":
            rep = dict(rep, value_sexp="(i 0)")
        if "value_sexp" not in rep:
            raise Infra("replay file without an encodable value")
        rv = U.dec_val(U.parse_sexp(rep["value_sexp"]))
        values = [rv] if rep.get("kind") not in ("export", "export-sig") else []
        terms = []
        programs = [[(rep["function"], rv)]] if rep.get("kind") == "export" else []
    else:
        rng = ctx.sub_rng("values")
        nval = ctx.budget(2500, 60000)
        witnesses = ['a"b', "it's", (1, (2, 3)), 1e-16, 0.1 + 0.2, [1, "x", (2, [3.5, ()])], (), [], ((), ()), [[]]]
        values = list(witnesses)
        for _ in range(nval):
            r = rng.random()
            cfg = (set() if r < 0.6 else {"quote"} if r < 0.72 else {"float15"} if r < 0.82 else {"tailtuple"} if r < 0.92
                   else {"tuple1"} if r < 0.96 else {"quote", "float15", "tailtuple", "tuple1"})
            values.append(gen_value(rng, rng.choice([1, 2, 3, 3, 4]), cfg))
        trng = ctx.sub_rng("terms")
        terms = [gen_pl(trng, trng.choice([1, 2, 3, 4])) for _ in range(ctx.budget(2500, 60000))]
        prng = ctx.sub_rng("programs")
        programs = [gen_specs(prng) for _ in range(ctx.budget(8, 150))]

    # ------------------------------------------------------------------ implementation side + oracle
    lines, impl, what = [], [], []
    nfail = 0
    for v in values:
        nontriv = type(v) is not int
        ctx.case("v:" + repr(v), nontrivial=nontriv)
        ctx.count("value:" + type(v).__name__)
        if has_nan(v):
            continue
        try:
            back = pl2py(py2pl(v))
            e = None
        except Exception as ex:   # the conversion functions must not raise on supported values
            back, e = None, ex
        if e is not None:
            report("py2pl/pl2py raised %s on %r" % (type(e).__name__, v), {"kind": "rt", "value": repr(v)},
                   {"kind": "exception", "exc": type(e).__name__})
            continue
        if has_tuple1(v):
            ctx.count("outside property: length-one tuple")
        elif not U.same(back, v):
            nfail += 1
            if nfail <= 60:       # shrinking is the expensive part; every shape shows up well within 60 failures
                small = shrink(v, rt_fails)
                classify(small, "pypl", "pl2py(py2pl(%r)) = %r" % (small, pl2py(py2pl(small))),
                         {"kind": "rt", "value": repr(small), "value_sexp": U.enc_val(small), "found_in": repr(v)[:300]})
        try:
            ev = U.enc_val(v)
        except U.NotEncodable:
            continue
        lines.append("py2pl " + ev); impl.append(U.enc_pl(py2pl(v))); what.append("py2pl(%r)" % (v,))
        lines.append("rt %s %s" % (variant, ev)); impl.append(U.enc_val(back)); what.append("pl2py(py2pl(%r))" % (v,))
        if type(v) is list:
            lines.append("list2term " + ev); impl.append(U.enc_pl(list2term(v))); what.append("list2term(%r)" % (v,))
    for t in terms:
        ctx.case("t:" + repr(t))
        ctx.count("term")
        try:
            et = U.enc_pl(t)
        except U.NotEncodable:
            continue
        try:
            out = U.enc_val(pl2py(t))
        except ValueError:
            out = "ValueError"
        lines.append("pl2py %s %s" % (variant, et)); impl.append(out); what.append("pl2py(%s)" % repr(t))
        try:
            out = "(ok%s)" % "".join(" " + U.enc_val(x) for x in term2list(t))
        except ValueError:
            out = "ValueError"
        except AttributeError:      # term2list on a bare int tail: `int.functor`
            out = "AttributeError"
        lines.append("term2list %s %s" % (variant, et)); impl.append(out); what.append("term2list(%s)" % repr(t))
    ctx.sample({"values": [repr(v) for v in values[10:14]], "terms": [repr(t) for t in terms[:3]]})

    # error branches: not in the model's input types, checked on the real code only
    if not ctx.replay_in:
        for bad in (True, None, {"a": 1}, {1}, b"x", 1j):
            ctx.case("bad:" + repr(bad))
            try:
                py2pl(bad)
                report("py2pl(%r) did not raise ValueError" % (bad,), {"kind": "error-branch", "value": repr(bad)},
                       {"kind": "error-branch", "function": "py2pl"})
            except ValueError:
                pass
        try:
            pl2py(None)
            report("pl2py(None) did not raise ValueError", {"kind": "error-branch"}, {"kind": "error-branch", "function": "pl2py"})
        except ValueError:
            pass
        for x in (float("inf"), float("-inf"), [float("inf"), 1]):
            ctx.case("inf:" + repr(x))
            if not U.same(pl2py(py2pl(x)), x):
                report("pl2py(py2pl(%r)) = %r" % (x, pl2py(py2pl(x))), {"kind": "rt", "value": repr(x)},
                       {"kind": "value-changed", "via": "pypl", "shape": "inf"})

    # ------------------------------------------------------------------ exported functions
    elines, eexpect, ediffs = run_programs(ctx, drv, variant, programs, report) if programs else ([], [], [])

    # ------------------------------------------------------------------ generated signatures / binding patterns
    if ctx.replay_in:
        sig_replay = rep if rep.get("kind") == "export-sig" else None
        slines, simpl, swhat = E.run_stream(ctx, None, 0, replay=sig_replay) if sig_replay else ([], [], [])
    else:
        slines, simpl, swhat = E.run_stream(ctx, ctx.sub_rng("signatures"), ctx.budget(14, 250))

    # ------------------------------------------------------------------ model side
    first_diff = None
    if drv is not None:
        smodel = drv.run(slines)
        for k in range(len(slines)):
            if U.canon(smodel[k]) != U.canon(simpl[k]) and first_diff is None:
                first_diff = ("wrapper of " + swhat[k], smodel[k], simpl[k])
        model = drv.run(lines + elines + ["why %s %s" % (variant, U.enc_val(p[0])) for p in pending])
        for k in range(len(lines)):
            if U.canon(model[k]) != U.canon(impl[k]) and first_diff is None:
                first_diff = (what[k], model[k], impl[k])
        for k, (desc, actual) in enumerate(eexpect):
            if U.canon(model[len(lines) + k]) != U.canon(actual) and first_diff is None:
                first_diff = (desc + " as seen from ProbLog", model[len(lines) + k], actual)
        if ediffs and first_diff is None:
            first_diff = ediffs[0]
        whys = model[len(lines) + len(elines):]
    else:
        whys = ["?"] * len(pending)
    seen_small = set()
    for (small, via, desc, replay), shape in zip(pending, whys):
        key = (via, repr(small))
        if key in seen_small:
            continue
        seen_small.add(key)
        ctx.count("failing round trip, shape " + shape)
        # shape "ok" = the model proves this value round-trips: the model no longer describes the code
        report("%s  [model classification: %s]" % (desc, shape), replay, {"kind": "value-changed", "via": via, "shape": shape})
    if first_diff:
        ctx.disagree("PyPl model vs problog.pypl", "%s: model %s, implementation %s" % first_diff)
    ctx.obligation("correspondence: model(%s) = implementation on %d values, %d terms, %d exported results, %d wrapper calls"
                   % (variant, len(values), len(terms), len(eexpect), len(slines)), first_diff is None and drv is not None,
                   "" if first_diff is None else "first difference: %s" % first_diff[0])
    ctx.extra["string_decoder_variant"] = variant
    ctx.extra["roundtrip_failures_seen"] = nfail
    return ctx.finish("proof")
