"""C32 — weighted selection library predicates define the documented distribution.

Tie: (a) the relevant clauses of problog/library/lists.pl are parsed with problog's own parser on every run and
compared (after variable normalisation) with the clause text the Lean model (lean/ProbLogModel/Tasks/Lists.lean) was
written from; (b) the probabilities of all answers of select_weighted/4,5 and select_uniform/4 (one call, and two calls
in one query with equal / different identifiers) computed by real inference are compared with the exact rationals of
the compiled model.  Search oracle (independent of the Lean model): P(position i) = w_i / sum(w) in plain Python."""
import json
import os
import re
from fractions import Fraction as F

import lib

MODULE = "ProbLogProofs.Properties.C32"
THEOREMS = [
    "ProbLogProofs.C32.C32_prob",
    "ProbLogProofs.C32.C32_total",
    "ProbLogProofs.C32.C32_outcome",
    "ProbLogProofs.C32.C32_uniform",
    "ProbLogProofs.C32.C32_pairs",
    "ProbLogProofs.C32.C32_same_id_same_choice",
    "ProbLogProofs.C32.C32_other_id_independent",
]

MANIFEST = {
    "level": "proof",
    "technique": "Lean 4 theorems about a hand-translation of the sw/6, sw_p/5, select_weighted/4,5, select_uniform/4 "
                 "clauses into a function to finite distributions (facts identified by all their arguments) + clause-level "
                 "diff against the parsed lists.pl + comparison of all answer probabilities with real inference",
    "text": "Lean theorems (every list, all positive weights): P(element at position i is selected) = w_i / sum(w) "
            "(1/n for select_uniform), the answer is (value at i, list without position i), probabilities sum to 1, a "
            "second call with the same identifier and arguments makes the same choice with probability 1 and a call "
            "with another identifier is independent. Every run parses lists.pl with problog's parser and diffs the 14 "
            "relevant clauses against the text the model was written from, and compares the answer probabilities of "
            "real inference on lists of length 1-6 with the model's exact rationals (tolerance 1e-9).",
    "note": "Trusted: Lean kernel, standard axioms, harness and driver glue; the hand translation of the clauses (tied by "
            "the clause diff and the numeric comparison); ProbLog's inference on these programs is the implementation "
            "under test, float arithmetic of `is` is outside the model.",
    "design_ref": "DESIGN.md §6 C32",
}

# The clause text the model was written from (problog/library/lists.pl, normalised: variables renamed in order of
# first occurrence, as printed by problog's parser).
MODEL_CLAUSES = [
    "select_uniform(V0,V1,V2,V3) :- length(V1,V4), V4>0, V5 is 1/V4, make_list(V4,V5,V6), select_weighted(V0,V6,V1,V2,V3)",
    "select_weighted(V0,V1,V2,V3,V4) :- sum_list(V1,V5), V5>0, sw(V0,V5,V1,V2,V3,V4)",
    "select_weighted(V0,V1,V2,V3) :- unzip(V1,V4,V5), select_weighted(V0,V4,V5,V2,V3)",
    "V0::sw_p(V1,V0,_,_,_)",
    "sw(V0,V1,[V2 | V3],[V4],V4,[])",
    "sw(V0,V1,[V2 | V3],[V4 | V5],V4,V5) :- V5\\=[], V6 is V2/V1, sw_p(V0,V6,V3,V4,V5)",
    "sw(V0,V1,[V2 | V3],[V4 | V5],V6,[V4 | V7]) :- V5\\=[], V8 is V2/V1, not sw_p(V0,V8,V3,V4,V5), V9 is V1-V2, "
    "sw(V0,V9,V3,V5,V6,V7)",
    "sum_list(V0,V1) :- sum_list(V0,0,V1)",
    "sum_list([],V0,V0)",
    "sum_list([V0 | V1],V2,V3) :- V4 is V2+V0, sum_list(V1,V4,V3)",
    "unzip([],[],[])",
    "unzip([(V0, V1) | V2],[V0 | V3],[V1 | V4]) :- unzip(V2,V3,V4)",
    "make_list(0,V0,[])",
    "make_list(V0,V1,[V1 | V2]) :- V0>0, V3 is V0-1, make_list(V3,V1,V2)",
]
WANT = {("select_uniform", 4), ("select_weighted", 4), ("select_weighted", 5), ("sw", 6), ("sw_p", 5), ("make_list", 3),
        ("unzip", 3), ("sum_list", 2), ("sum_list", 3)}


def norm_clause(text):
    names = {}

    def sub(m):
        t = m.group(0)
        if t == "_":
            return "_"
        return names.setdefault(t, "V%d" % len(names))

    return re.sub(r"(?<![A-Za-z0-9_'])[A-Z_][A-Za-z0-9_]*", sub, text)


def parsed_clauses():
    from problog.program import PrologFile
    import problog
    path = os.path.join(os.path.dirname(problog.__file__), "library", "lists.pl")
    out = []
    for c in PrologFile(path):
        h = getattr(c, "head", c)
        if (h.functor, h.arity) in WANT:
            out.append(norm_clause(str(c)))
    return out


# ---------------------------------------------------------------------------------------------------- cases
def wtxt(w):
    return str(w)


def call_text(c, x, r):
    kind, ident, ws, xs = c
    if kind == "w":
        return "select_weighted(%s,[%s],[%s],%s,%s)" % (ident, ",".join(map(wtxt, ws)), ",".join(map(str, xs)), x, r)
    if kind == "p":
        return "select_weighted(%s,[%s],%s,%s)" % (ident, ",".join("(%s,%s)" % (wtxt(w), v) for w, v in zip(ws, xs)), x, r)
    return "select_uniform(%s,[%s],%s,%s)" % (ident, ",".join(map(str, xs)), x, r)


def call_sexp(c):
    kind, ident, ws, xs = c
    if kind == "u":
        return "(u %d (%s))" % (ident, " ".join(map(str, xs)))
    return "(%s %d (%s) (%s))" % (kind, ident, " ".join(lib.rat(F(str(w))) for w in ws), " ".join(map(str, xs)))


def gen_call(rng, malformed=False):
    n = rng.randint(1, 6)
    pool = rng.choice([[1, 2, 3, 4, 5, 6, 7], [1, 2, 3], [1, 1, 2]])      # equal elements are common
    xs = [rng.choice(pool) for _ in range(n)]
    kind = rng.choice(["w", "w", "p", "u"])
    ws = []
    for _ in range(n):
        r = rng.random()
        ws.append(rng.randint(1, 9) if r < 0.5 else rng.choice([0.5, 0.25, 1.5, 2.5, 0.1, 0.3, 0.7, 1.0, 3.0, 0.05]))
    ident = rng.choice([1, 2, 3])
    if malformed:
        m = rng.choice(["zero", "allzero", "short", "long", "empty"])
        if m == "zero":
            ws[rng.randrange(n)] = 0
        elif m == "allzero":
            ws = [0] * n
        elif m == "short" and kind == "w":
            ws = ws[:-1]
        elif m == "long" and kind == "w":
            ws = ws + [rng.randint(1, 4)]
        elif m == "empty":
            xs, ws = [], []
    return (kind, ident, ws, xs)


def spec_one(c):
    """Independent oracle: answer (value, rest) -> probability, or None when the property says nothing."""
    kind, ident, ws, xs = c
    if kind == "u":
        ws = [1] * len(xs)
    if not xs or len(ws) != len(xs) or any(F(str(w)) <= 0 for w in ws):
        return None
    tot = sum(F(str(w)) for w in ws)
    d = {}
    for i, (w, x) in enumerate(zip(ws, xs)):
        key = (x, tuple(xs[:i] + xs[i + 1:]))
        d[key] = d.get(key, F(0)) + F(str(w)) / tot
    return d


def run_real(src):
    from problog.program import PrologString
    from problog import get_evaluatable
    from problog.logic import term2list
    try:
        r = get_evaluatable().create_from(PrologString(src)).evaluate()
    except Exception as e:
        return "EXC:" + type(e).__name__
    out = {}
    for k, v in r.items():
        if v == 0:
            continue            # "reported with probability 0" = "not reported"
        key = tuple((int(a) if not str(a).startswith("[") else tuple(int(t) for t in term2list(a))) for a in k.args)
        out[key] = v
    return out


def model_dist(line_out, two):
    """Parse the driver's answer into {key: Fraction}."""
    if line_out in ("ArithmeticError", "bad-op"):
        return line_out
    d = {}
    for item in re.findall(r"\(([^()]*(?:\([^()]*\)[^()]*)*)\)", line_out[1:-1]):
        toks = re.findall(r"\([^()]*\)|\S+", item)

        def lst(t):
            return tuple(int(x) for x in t[1:-1].split())
        if two:
            key = (int(toks[0]), lst(toks[1]), int(toks[2]), lst(toks[3]))
            p = F(toks[4])
        else:
            key = (int(toks[1]), lst(toks[2]))
            p = F(toks[3])
        if p != 0:
            d[key] = d.get(key, F(0)) + p
    return d


def same(real, model, tol=1e-9):
    if isinstance(real, str) or isinstance(model, str):
        return (real == "EXC:ArithmeticError" and model == "ArithmeticError")
    keys = set(real) | set(model)
    return all(abs(real.get(k, 0.0) - float(model.get(k, 0))) <= tol for k in keys)


def case_src(case):
    if case[0] == "one":
        return ":- use_module(library(lists)).\nq(X,R) :- %s.\nquery(q(_,_)).\n" % call_text(case[1], "X", "R")
    return (":- use_module(library(lists)).\nq(X1,R1,X2,R2) :- %s, %s.\nquery(q(_,_,_,_)).\n" % (
        call_text(case[1], "X1", "R1"), call_text(case[2], "X2", "R2")))


def spec_case(case):
    if case[0] == "one":
        return spec_one(case[1])
    c1, c2 = case[1], case[2]
    s1, s2 = spec_one(c1), spec_one(c2)
    if s1 is None or s2 is None:
        return None
    if c1[1] != c2[1]:                                  # different identifiers: independent
        return {k1 + k2: p1 * p2 for k1, p1 in s1.items() for k2, p2 in s2.items()}
    norm = lambda c: (c[0] if c[0] != "p" else "w", [F(str(w)) for w in c[2]], c[3])
    if norm(c1) == norm(c2):                            # same identifier, same arguments: the same choice
        return {k + k: p for k, p in s1.items()}
    return None                                         # same identifier, other lists: facts may be shared (model only)


def check_case(case):
    """Real inference vs the specification oracle. Returns (real, failure or None)."""
    real = run_real(case_src(case))
    spec = spec_case(case)
    if spec is None:
        return real, None
    if isinstance(real, str):
        return real, ("inference raised %s" % real, {"kind": "exception", "exc": real})
    keys = set(real) | set(spec)
    for k in sorted(keys):
        if abs(real.get(k, 0.0) - float(spec.get(k, 0))) > 1e-9:
            return real, ("P%s = %r, specification w_i/sum(w): %s" % (k, real.get(k, 0.0), spec.get(k, 0)),
                          {"kind": "probability", "calls": case[0]})
    return real, None


def run(ctx):
    ctx.rule = ("a case = one query with one or two select_weighted/4,5 / select_uniform/4 calls on a list of length 1-6 "
                "(random positive weights, equal elements, identifiers 1-3; a smaller stream with zero weights, "
                "mismatched lengths, empty lists); distinct = distinct query text; non-trivial = list length >= 2")
    ctx.proof_phase(MODULE, THEOREMS)
    drv = ctx.driver("Drivers.C32")
    # (a) the clauses the model was written from
    try:
        got = parsed_clauses()
    except Exception as e:
        got = ["<parse error %s>" % type(e).__name__]
    diff = [(i, a, b) for i, (a, b) in enumerate(zip(got + [None] * 20, MODEL_CLAUSES + [None] * 20)) if a != b]
    ctx.obligation("lists.pl clauses of select_uniform/select_weighted/sw/sw_p/sum_list/unzip/make_list = the text "
                   "the model was written from (%d clauses)" % len(MODEL_CLAUSES), not diff,
                   "" if not diff else "first difference: lists.pl has %r, model was written from %r" % diff[0][1:])
    # (b) numeric comparison
    cases = []
    if ctx.replay_in:
        cases.append(json.load(open(ctx.replay_in))["replay"]["case"])
        cases = [tuple(tuple(x) if isinstance(x, list) else x for x in cases[0])]
        cases = [(c[0],) + tuple((k, i, list(ws), list(xs)) for (k, i, ws, xs) in c[1:]) for c in cases]
    else:
        rng = ctx.sub_rng("cases")
        n1 = ctx.budget(90, 3000)
        n2 = ctx.budget(60, 2000)
        nm = ctx.budget(25, 600)
        for _ in range(n1):
            cases.append(("one", gen_call(rng)))
        for _ in range(n2):
            c1 = gen_call(rng)
            r = rng.random()
            if r < 0.35:
                c2 = c1                                                  # same identifier, same arguments
            elif r < 0.6:
                c2 = (c1[0], rng.choice([i for i in (1, 2, 3) if i != c1[1]]), c1[2], c1[3])   # other identifier
            elif r < 0.8 and c1[0] != "u" and len(c1[2]) >= 2:
                ws = list(c1[2])
                ws[0] = ws[0] + 1                                        # same identifier, a shared suffix of facts
                c2 = (c1[0], c1[1], ws, c1[3])
            else:
                c2 = gen_call(rng)
            if len(c1[3]) * len(c2[3]) <= 16:
                cases.append(("two", c1, c2))
        for _ in range(nm):
            cases.append(("one", gen_call(rng, malformed=True)))
    if not ctx.replay_in:
        ctx.sub_rng("order").shuffle(cases)
    lines, reals = [], []
    first_fail = None
    import time
    tmax = ctx.budget(75, 900)
    ran = []
    for case in cases:
        if time.time() - ctx.t_work > tmax and not ctx.replay_in:
            ctx.count("not-run:time-budget")
            continue
        ran.append(case)
        real, failure = check_case(case)
        reals.append(real)
        lines.append("%s %s" % (case[0], " ".join(call_sexp(c) for c in case[1:])))
        n = max(len(c[3]) for c in case[1:])
        ctx.case(case_src(case), nontrivial=n >= 2)
        ctx.count("%s:%s" % (case[0], "+".join(c[0] for c in case[1:])))
        ctx.count("len=%d" % n)
        if spec_case(case) is None:
            ctx.count("outside-spec (model only)")
        if len(set(case[1][3])) < len(case[1][3]):
            ctx.count("equal-elements")
        ctx.sample({"query": case_src(case).split("\n")[1]})
        if failure and first_fail is None:
            first_fail = (case, failure)
    first_diff = None
    if drv is not None:
        outs = drv.run(lines)
        for case, real, o in zip(ran, reals, outs):
            m = model_dist(o, case[0] == "two")
            if not same(real, m) and first_diff is None:
                first_diff = (case_src(case).split("\n")[1], real if isinstance(real, str) else
                              {str(k): v for k, v in sorted(real.items())},
                              m if isinstance(m, str) else {str(k): str(v) for k, v in sorted(m.items())})
    if first_fail:
        case, (what, sig) = first_fail
        # shrink: drop list positions while the failure stays
        def drop(case, i):
            out = [case[0]]
            for (k, ident, ws, xs) in case[1:]:
                out.append((k, ident, [w for j, w in enumerate(ws) if j != i], [x for j, x in enumerate(xs) if j != i]))
            return tuple(out)
        changed = True
        while changed and not ctx.replay_in:
            changed = False
            for i in range(max(len(c[3]) for c in case[1:]) - 1, -1, -1):
                cand = drop(case, i)
                if any(not c[3] for c in cand[1:]):
                    continue
                f2 = check_case(cand)[1]
                if f2 and f2[1] == sig:
                    case, what, changed = cand, f2[0], True
        ctx.fail("%s | %s" % (what, case_src(case).split("\n")[1]), {"case": case, "source": case_src(case)}, sig)
    if first_diff:
        ctx.disagree("Lists model vs real inference", "query %s: implementation %s, model %s" % first_diff)
    ctx.obligation("correspondence: model = real inference on %d queries" % len(ran),
                   first_diff is None and drv is not None, "" if first_diff is None else str(first_diff)[:300])
    return ctx.finish("proof")
