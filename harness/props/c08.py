"""C08 — a query's answer does not depend on what else was grounded before it.

Histories: (a) all queries and evidence atoms of a generated program grounded one at a time, in seeded random orders,
into one shared target formula; (b) engine.ground_all with shuffled query/evidence lists; (c) one prepared ClauseDB and
one engine object reused for a sequence of independent single-query groundings. Every answer is compared with the Lean
specification `Sem` (which is defined per query, independent of the other queries)."""
import random

import cfgprop
import spine

MODULE = "ProbLogProofs.Properties.C08"
THEOREMS = [
    "ProbLogProofs.C08.C08_run_eq_sums",
    "ProbLogProofs.C08.C08_queries_pointwise",
    "ProbLogProofs.C08.C08_restrict_irrelevant",
    "ProbLogProofs.C08.C08_query_independent",
]

MANIFEST = {
    "level": "other",
    "technique": "random grounding histories (shared target / ground_all / shared prepared database) on generated programs, "
                 "each compared with the Lean specification Sem, whose per-query independence is a Lean theorem; on ground "
                 "programs without recursion the engine and its table across ground() calls are modelled "
                 "(ProbLogModel/GroundAcyclic.lean: exact equality of ground program and table) and history independence is "
                 "a Lean theorem (C01Ground.C08_ground_history_independent, Ground_table_inv)",
    "text": "Partial: the history quantifier is explored, not proved; the engine's tabling across ground() calls is not "
            "modelled. The specification side (a query's value does not depend on which other queries are asked) is the "
            "Lean theorem listed in the obligation list.",
    "note": "Trusted: harness. An engine OBJECT is unusable after an exception escaped execute(); histories therefore use a "
            "fresh engine per history (same database/target reuse is what the property states). First-order sub-phase (harness/groundfo_util.py): programs with variables against ProbLogModel/GroundFO.lean, exact correspondence under the recorded schedule / history; the semantic statement (CorrectFO) is checked per program by Drivers.GroundFOCheck under the recorded and an arbitrary schedule, and proved for the model in partial-correctness form (C01GroundFOFull: every schedule and history, against Sem.wfm of the Herbrand instantiation, under the decidable hypotheses SpecOK which the driver decides per program; termination of the model is not proved).",
    "design_ref": "DESIGN.md §6 C08",
}

N = [4]


def clauses_src(P):
    return "\n".join(spine.stmt_src(s) for s in P["stmts"])


def variants(P, seed):
    rng = random.Random(seed)
    src = clauses_src(P)
    base = {"queries": [spine.atom_s(q) for q in P["queries"]], "evidence": [(spine.atom_s(a), v) for a, v in P["evidence"]]}
    out = [("default", spine.to_src(P), {})]
    for k in range(N[0]):
        mode = ["shared_target", "ground_all", "shared_db"][k % 3]
        h = dict(base, mode=mode, seed=rng.randrange(1 << 30))
        if mode == "ground_all" and P["evidence"] and k % 2 == 1:
            h["propagate"] = True
            mode = "ground_all+propagate"
        out.append(("%s#%d" % (mode, k), src, {"history": h}))
    return out


def run(ctx):
    N[0] = ctx.budget(6, 24)
    ctx.rule = ("generated programs x seeded grounding histories (shared target, ground_all, shared prepared database); "
                "non-trivial = at least one query instance and more than one world")
    # ground programs without recursion: the engine with its table across ground() calls is MODELLED (exact
    # correspondence of ground program and table) and history independence is a theorem (C08_ground_history_independent)
    import ground_util
    gerr = ground_util.guarded(ctx, "history", 200, 6000)
    import groundfo_util           # the same on programs WITH variables (first-order model, exact correspondence)
    gerr2 = groundfo_util.guarded(ctx, "history", 150, 5000)
    gerr = gerr or gerr2
    rc = cfgprop.run(ctx, MODULE, THEOREMS, variants, nq=50, nt=700, level="other",
                     explanation="Histories are explored, not proved, on general programs; every history's answers are compared "
                                 "with the Lean specification value. On ground programs without recursion the engine and its "
                                 "table are modelled (lean/ProbLogModel/GroundAcyclic.lean, exact correspondence) and history "
                                 "independence is proved (ProbLogProofs.C01Ground).")
    return ground_util.after(rc, gerr)
