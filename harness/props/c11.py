"""C11 — the ground-program builder preserves Boolean meaning.

Tie: lean/ProbLogModel/Formula.lean (hand model of LogicFormula's builder, all option records) vs problog.formula
on random/bounded-exhaustive operation sequences: returned keys and the complete store (node array, weights,
names, AD constraints, atom count) are compared exactly.
Search oracle (independent of the Lean model): a symbolic expression is recorded for every key any call returns
(no simplification, no sharing; mutable disjunctions are named unknowns with a growing list of disjuncts, least
fixpoint); every returned key - including keys returned earlier - must denote that expression under every atom
assignment when evaluated on the real store."""
import itertools
import json
from fractions import Fraction

from lib import Infra

MODULE = "ProbLogProofs.Properties.C11"
THEOREMS = [
    "ProbLogProofs.C11.C11_negate",
    "ProbLogProofs.C11.C11_negate_involutive",
    "ProbLogProofs.C11.C11_grows_consistent",
    "ProbLogProofs.C11.C11_earlier_keys_keep_meaning",
    "ProbLogProofs.C11.C11_grows_refl",
    "ProbLogProofs.C11.C11_grows_trans",
    "ProbLogProofs.C11.C11_addCompound_spec",
    "ProbLogProofs.C11.C11_addCompound_error",
    "ProbLogProofs.C11.C11_addAnd",
    "ProbLogProofs.C11.C11_addOr",
    "ProbLogProofs.C11.C11_addAtom_grows",
    "ProbLogProofs.C11.C11_addAtom_key",
    "ProbLogProofs.C11.C11_addName_preserves",
    "ProbLogProofs.C11.C11_addDisjunct",
    "ProbLogProofs.C11.C11_addDisjunct_others_unchanged",
    "ProbLogProofs.C11.C11_addDisjunct_hashconsed_refuted",
    "ProbLogProofs.C11.C11_wf_empty",
    "ProbLogProofs.C11.C11_acyclic_exists_unique",
    "ProbLogProofs.C11.C11_acyclic_empty",
    "ProbLogProofs.C11.C11_addCompound_acyclic",
    "ProbLogProofs.C11.C11_addAtom_acyclic",
    "ProbLogProofs.C11.C11_addName_acyclic",
    "ProbLogProofs.C11.C11_keyBelow_negate",
    "ProbLogProofs.C11.C11_keyBelow_grows",
]

MANIFEST = {
    "level": "proof",
    "technique": "Lean 4 theorems about a hand-written model of LogicFormula's builder (all option records) + exact "
                 "correspondence of keys and full store with problog.formula on operation sequences + truth-table oracle",
    "text": "Per-operation Lean theorems: for every option record, every store and every argument list, the key returned "
            "by add_and/add_or/negate/add_disjunct denotes the AND/OR/NOT of its arguments in every valuation consistent "
            "with the new store, and the store only grows (earlier nodes unchanged), so earlier keys keep their meaning. "
            "The model is tied to formula.py by exact comparison of returned keys and of the whole store on random and "
            "bounded-exhaustive call sequences over the option cross product.",
    "note": "Trusted: Lean kernel + standard axioms; harness/driver glue. The model is hand-written (not generated); "
            "agreement with formula.py is established on the sequences run. Node names are modelled only as far as they "
            "steer control flow (avoid_name_clash).",
    "design_ref": "DESIGN.md §5.2, §6 C11",
}


# ------------------------------------------------------------------------------------------------ generation
def k2s(k):
    return "N" if k is None else str(k)


def gen_seq(rng, n, opts):
    """Generate a call sequence *adaptively* against the real builder (so that keys exist)."""
    from problog.formula import LogicFormula
    from problog.logic import Term
    f = LogicFormula(auto_compact=opts[0], avoid_name_clash=opts[1], keep_order=opts[2], keep_all=opts[3],
                     max_arity=opts[4], keep_duplicates=opts[5])
    ops = ["opts %s %s %s %s %d %s" % (tf(opts[0]), tf(opts[1]), tf(opts[2]), tf(opts[3]), opts[4], tf(opts[5]))]
    keys = [None, 0]
    mutable = []
    prev_children = []
    natoms = 0
    for _ in range(n):
        r = rng.random()
        pool = keys + [(-k) for k in keys if k]
        def pick():
            k = rng.choice(pool)
            return k
        if r < 0.22 or natoms == 0:
            ident = rng.randrange(1, 6)
            pc = rng.choices(["normal", "none", "false"], [12, 1, 1])[0]
            w = rng.choice(["T", "1/2", "3/10", "1/5"])
            w = {"none": "None", "false": "False"}.get(pc, w)
            g = rng.choice(["-", "-", "-", "1", "2"])
            nm = rng.choice(["-", "-", str(rng.randrange(1, 5))])
            ops.append("atom %d %s %s %s %s %s f" % (ident, pc, w, g, nm, rng.choice("tttf")))
            natoms += 1
        elif r < 0.5:
            cs = [pick() for _ in range(rng.choice([1, 2, 2, 2, 3, 3, 4]))]
            if prev_children and rng.random() < 0.25:
                cs = list(rng.choice(prev_children))    # same children as an earlier node (sharing / stale-index hazards)
            nm = rng.choice(["-", "-", "-", str(rng.randrange(1, 5))])
            cp = rng.choice(["-", "-", "-", "-", "t", "f"])
            ops.append("and (%s) %s %s" % (" ".join(k2s(c) for c in cs), nm, cp))
        elif r < 0.8:
            ph = rng.random() < 0.08
            cs = [] if ph and rng.random() < 0.7 else [pick() for _ in range(rng.choice([1, 2, 2, 2, 3, 3, 4]))]
            if cs and prev_children and rng.random() < 0.3:
                cs = list(rng.choice(prev_children))
            ro = rng.random() < 0.65
            nm = rng.choice(["-", "-", "-", str(rng.randrange(1, 5))])
            cp = rng.choice(["-", "-", "-", "-", "t", "f"])
            ops.append("or (%s) %s %s %s %s" % (" ".join(k2s(c) for c in cs), tf(ro), nm, tf(ph), cp))
        elif r < 0.92 and mutable:
            m = rng.choice(mutable)
            ops.append("disjunct %s %s" % (k2s(m), k2s(pick())))
        elif r < 0.96:
            ops.append("negate %s" % k2s(pick()))
        else:
            k = pick()
            ops.append("name %d %s %s %s" % (rng.randrange(1, 5), k2s(k), rng.choice(["query", "named", "ev+", "ev-", "l1"]), rng.choice("ft")))
        res = apply_op(f, ops[-1])
        if ops[-1].split()[0] in ("and", "or") and "(" in ops[-1]:
            kids = pkeys(ops[-1][ops[-1].index("("):ops[-1].index(")") + 1])
            if kids:
                prev_children.append(kids)
        if isinstance(res, int) and res != 0 and abs(res) not in [abs(k) for k in keys if k]:
            keys.append(abs(res))
        t = ops[-1].split()
        if t[0] == "or" and isinstance(res, int) and res > 0 and (ops[-1].split(")")[1].split()[0] == "f" or ops[-1].split(")")[1].split()[2] == "t"):
            mutable.append(res)
    ops.append("dump")
    return ops


def tf(b):
    return "t" if b else "f"


def pkey(s):
    return None if s == "N" else int(s)


def pkeys(s):
    s = s.strip()[1:-1].split()
    return [pkey(x) for x in s]


def mk_name(s):
    from problog.logic import Term
    return None if s == "-" else Term("n" + s)


def apply_op(f, op):
    """Apply one protocol op to a real LogicFormula; returns the key / 'ok' / exception class name."""
    from problog.logic import Term
    t = op.split()
    try:
        if t[0] == "atom":
            ident, pc, w, g, nm, cr, ex = t[1:]
            if pc == "none" or w == "None":
                prob = None
            elif pc == "false" or w == "False":
                prob = False
            else:
                prob = True if w == "T" else Fraction(w)
            group = None if g == "-" else (int(g), ())
            return f.add_atom(int(ident), prob, group=group, name=mk_name(nm), cr_extra=(cr == "t"), is_extra=(ex == "t"))
        if t[0] == "and":
            inside, rest = op[op.index("("):op.index(")") + 1], op[op.index(")") + 1:].split()
            cp = None if rest[1] == "-" else rest[1] == "t"
            return f.add_and(pkeys(inside), name=mk_name(rest[0]), compact=cp)
        if t[0] == "or":
            inside, rest = op[op.index("("):op.index(")") + 1], op[op.index(")") + 1:].split()
            cp = None if rest[3] == "-" else rest[3] == "t"
            return f.add_or(pkeys(inside), readonly=(rest[0] == "t"), name=mk_name(rest[1]), placeholder=(rest[2] == "t"), compact=cp)
        if t[0] == "disjunct":
            return f.add_disjunct(pkey(t[1]), pkey(t[2]))
        if t[0] == "negate":
            return f.negate(pkey(t[1]))
        if t[0] == "name":
            label = {"query": f.LABEL_QUERY, "named": f.LABEL_NAMED, "ev+": f.LABEL_EVIDENCE_POS, "ev-": f.LABEL_EVIDENCE_NEG}.get(t[3], t[3])
            f.add_name(Term("n" + t[1]), pkey(t[2]), label, keep_name=(t[4] == "t"))
            return "ok"
        if t[0] == "opts":
            return "ok"
    except AssertionError:
        return "AssertionError"
    except ValueError:
        return "ValueError"
    raise Infra("unknown op " + op)


def r_name(n):
    if n is None:
        return "-"
    s = str(n)
    neg = ""
    if s.startswith("\\+"):
        neg, s = "~", s[2:]
    if s.startswith("choice("):
        return neg + "x" + s[len("choice("):].split(",")[0]
    return neg + s


def r_ident(i):
    if isinstance(i, str) and i.endswith("_extra"):
        return "x" + i[1:].split(",")[0]
    return str(i)


def r_w(w):
    if w is True:
        return "T"
    if w is None:
        return "None"
    if w is False:
        return "False"
    fr = Fraction(w)
    return "%d/%d" % (fr.numerator, fr.denominator) if fr.denominator != 1 else str(fr.numerator)


def dump_py(f):
    nodes = []
    for n in f._nodes:
        ty = type(n).__name__
        if ty == "atom":
            nodes.append("(atom %s %s %s %s)" % (r_ident(n.identifier), "-" if n.group is None else n.group[0], str(bool(n.is_extra)).lower(), r_name(n.name)))
        else:
            nodes.append("(%s (%s) %s)" % (ty, " ".join(k2s(c) for c in n.children), r_name(n.name)))
    ws = ["(%d %s)" % (i, r_w(w)) for i, w in f.get_weights().items()]
    lab = {f.LABEL_QUERY: "query", f.LABEL_NAMED: "named", f.LABEL_EVIDENCE_POS: "ev+", f.LABEL_EVIDENCE_NEG: "ev-", f.LABEL_EVIDENCE_MAYBE: "ev?"}
    names = ["(%s %s %s)" % (lab.get(l, l), r_name(n), k2s(k)) for n, k, l in f.get_names_with_label()]
    ads = ["(%d (%s) %s)" % (c.group[0], " ".join(str(x) for x in sorted(c.nodes)), "-" if c.extra_node is None else c.extra_node)
           for c in f._constraints_me.values()]
    return "(%s) W(%s) N(%s) A(%s) C%d" % (" ".join(nodes), " ".join(ws), " ".join(names), " ".join(ads), f.atomcount)


def canon_dump(s):
    """Canonicalise order-insensitive parts of a dump: names grouped per label (dict of dicts in Python), AD node sets."""
    import re
    head, rest = s.split(" W(", 1)
    w, rest = rest.split(") N(", 1)
    n, rest = rest.split(") A(", 1)
    a, c = rest.rsplit(") C", 1)
    names = sorted(re.findall(r"\([^()]*\)", n))
    ads = []
    for m in re.finditer(r"\((\d+) \(([^)]*)\) (\S+)\)", a):
        ads.append("(%s (%s) %s)" % (m.group(1), " ".join(sorted(m.group(2).split(), key=int)), m.group(3)))
    ws = sorted(re.findall(r"\([^()]*\)", w))
    return "%s W(%s) N(%s) A(%s) C%s" % (head, " ".join(ws), " ".join(names), " ".join(sorted(ads)), c)


# ------------------------------------------------------------------------------------------------ oracle
def oracle(ops):
    """Replay ops on the real builder, recording the *described* expression of every returned key; then check all
    returned keys by truth tables. Returns (outputs, problems, skipped_reason)."""
    from problog.formula import LogicFormula
    o = ops[0].split()
    f = LogicFormula(auto_compact=o[1] == "t", avoid_name_clash=o[2] == "t", keep_order=o[3] == "t", keep_all=o[4] == "t",
                     max_arity=int(o[5]), keep_duplicates=o[6] == "t")
    outs = ["ok"]
    node_expr = {}      # node index -> expression (first description)
    returned = []       # (op index, key, expr)
    mut = {}            # node index -> list of disjunct exprs
    atoms = set()

    def expr_of(k):
        if k is None:
            return ("c", False)
        if k == 0:
            return ("c", True)
        e = node_expr.get(abs(k))
        if e is None:
            return None
        return e if k > 0 else ("not", e)

    skipped = None
    for n, op in enumerate(ops[1:], 1):
        t = op.split()
        if t[0] == "dump":
            outs.append(dump_py(f))
            continue
        res = apply_op(f, op)
        outs.append(res if isinstance(res, str) else k2s(res))
        if isinstance(res, str):
            continue
        e = None
        if t[0] == "atom":
            pc = t[2]
            w = t[3]
            if (pc == "none" or (pc == "normal" and w == "None")) and not f.keep_all:
                e = ("c", True)
            elif (pc == "false" or (pc == "normal" and w == "False")) and not f.keep_all:
                e = ("c", False)
            else:
                e = ("atom", int(t[1]))
                atoms.add(int(t[1]))
        elif t[0] in ("and", "or"):
            inside = op[op.index("("):op.index(")") + 1]
            sub = [expr_of(c) for c in pkeys(inside)]
            if any(s is None for s in sub):
                skipped = "key without description"
                break
            rest = op[op.index(")") + 1:].split()
            if t[0] == "or" and (rest[0] == "f" or rest[2] == "t") and isinstance(res, int) and res > 0:
                mut[res] = list(sub)
                e = ("mut", res)
            else:
                e = (t[0], sub)
        elif t[0] == "disjunct":
            key, comp = pkey(t[1]), pkey(t[2])
            if key and key in mut and comp is not None:
                ce = expr_of(comp)
                if ce is None:
                    skipped = "key without description"
                    break
                mut[key].append(ce)
            e = expr_of(key)
        elif t[0] == "negate":
            e0 = expr_of(pkey(t[1]))
            e = None if e0 is None else ("not", e0)
        if e is not None:
            returned.append((n, res, e))
            if isinstance(res, int) and res != 0 and abs(res) not in node_expr:
                node_expr[abs(res)] = e if res > 0 else ("not", e)
    if skipped:
        return outs, [], skipped
    # polarity check: a mutable node must not depend negatively on a mutable node in its own cycle
    def deps(e, pol, acc):
        if e[0] == "mut":
            acc.add((e[1], pol))
        elif e[0] == "not":
            deps(e[1], -1, acc)  # any negation on the path marks the edge (even an even number of them)
        elif e[0] in ("and", "or"):
            for s in e[1]:
                deps(s, pol, acc)
    graph = {}
    for m, ds in mut.items():
        acc = set()
        for d in ds:
            deps(d, 1, acc)
        graph[m] = acc
    for m in mut:
        # search for a path m ->* m containing a negative edge
        seen = set()
        stack = [(m, False)]
        while stack:
            x, negseen = stack.pop()
            for (y, pol) in graph.get(x, ()):
                ns = negseen or pol < 0
                if y == m and ns:
                    return outs, [], "cycle through negation"
                if (y, ns) not in seen:
                    seen.add((y, ns))
                    stack.append((y, ns))
    level = {m: 0 for m in mut}
    for _ in range(len(mut) + 1):
        for m in mut:
            for (y, pol) in graph.get(m, ()):
                if y in level:
                    level[m] = max(level[m], level[y] + (1 if pol < 0 else 0))
    atoms = sorted(atoms)
    if len(atoms) > 6:
        return outs, [], "too many atoms"
    problems = []
    # node ids of real atoms by identifier
    ident2node = {}
    for i, nd in enumerate(f._nodes, 1):
        if type(nd).__name__ == "atom":
            ident2node[nd.identifier] = i
    for bits in itertools.product([False, True], repeat=len(atoms)):
        asg = dict(zip(atoms, bits))
        # abstract: least fixpoint over mutables
        mv = {m: False for m in mut}

        def ev(e):
            if e[0] == "c":
                return e[1]
            if e[0] == "atom":
                return asg[e[1]]
            if e[0] == "not":
                return not ev(e[1])
            if e[0] == "and":
                return all(ev(s) for s in e[1])
            if e[0] == "or":
                return any(ev(s) for s in e[1])
            return mv[e[1]]
        # stratified least fixpoint: negative dependencies are outside cycles (checked above), so the mutables can be
        # levelled by the number of negations below them; each level is a monotone least fixpoint over the levels below.
        # (A simultaneous iteration from all-false is NOT that: a node that is transiently true through the negation of
        # a not-yet-computed node can keep itself true through a positive self-loop.)
        for lv in sorted(set(level.values())):
            cur = [m for m in mut if level[m] == lv]
            for _ in range(len(cur) + 2):
                changed = False
                for m in cur:
                    v = any(ev(d) for d in mut[m])
                    if v != mv[m]:
                        mv[m] = v
                        changed = True
                if not changed:
                    break
        # real store: cut evaluation (= least fixpoint when no negative edge lies on a cycle)
        def rv(k, anc):
            if k is None:
                return False
            if k == 0:
                return True
            i = abs(k)
            nd = f._nodes[i - 1]
            ty = type(nd).__name__
            if ty == "atom":
                v = asg.get(nd.identifier, False) if not isinstance(nd.identifier, str) else False
            elif i in anc:
                v = False
            elif ty == "conj":
                v = all(rv(c, anc | {i}) for c in nd.children)
            else:
                v = any(rv(c, anc | {i}) for c in nd.children)
            return v if k > 0 else not v
        for (n, key, e) in returned:
            if rv(key, frozenset()) != ev(e):
                problems.append((n, ops[n], k2s(key), dict(asg)))
                break
        if problems:
            break
    return outs, problems, None


def shrink(ops, pred):
    cur = list(ops)
    changed = True
    while changed:
        changed = False
        i = len(cur) - 2
        while i >= 1:
            cand = cur[:i] + cur[i + 1:]
            try:
                if pred(cand):
                    cur = cand
                    changed = True
            except Exception:
                pass
            i -= 1
    return cur


OPTION_VECTORS = [
    (True, False, False, False, 0, False),
    (True, True, False, False, 0, False),
    (True, False, True, False, 0, False),
    (True, False, False, True, 0, False),
    (True, False, False, False, 2, False),
    (True, False, False, False, 0, True),
    (False, False, False, False, 0, False),
    (True, True, True, True, 3, True),
    (True, True, True, False, 2, False),
]


def run(ctx):
    ctx.rule = ("call sequences add_atom/add_and/add_or(readonly|mutable|placeholder)/add_disjunct/negate/add_name over "
                "<=5 atom identifiers, generated adaptively against the real builder, for 9 option records; distinct = "
                "distinct op text; non-trivial = at least 6 calls")
    ctx.proof_phase(MODULE, THEOREMS)
    drv = ctx.driver("Drivers.C11")
    rng = ctx.sub_rng("ops")
    nseq = ctx.budget(450, 40000)
    seqs = []
    if ctx.replay_in:
        seqs = [json.load(open(ctx.replay_in))["replay"]["ops"]]
    else:
        for i in range(nseq):
            opts = OPTION_VECTORS[i % len(OPTION_VECTORS)] if rng.random() < 0.8 else (
                rng.random() < 0.85, rng.random() < 0.3, rng.random() < 0.3, rng.random() < 0.2, rng.choice([0, 0, 2, 3]), rng.random() < 0.2)
            seqs.append(gen_seq(rng, rng.randrange(4, ctx.budget(14, 22)), opts))
    first_problem = None
    first_diff = None
    skipped = {}
    # the model is run on all sequences in a few driver processes (`opts` starts a fresh store): one process per
    # sequence costs ~0.2 s each on a loaded machine
    models = {}
    if drv is not None:
        for a in range(0, len(seqs), 2000):
            chunk = seqs[a:a + 2000]
            flat = drv.run([o for ops in chunk for o in ops])
            k = 0
            for j, ops in enumerate(chunk):
                models[a + j] = flat[k:k + len(ops)]
                k += len(ops)
    for si, ops in enumerate(seqs):
        outs, problems, skip = oracle(ops)
        ctx.case(" ".join(ops), nontrivial=len(ops) >= 8)
        ctx.count("opts " + ops[0][5:])
        for o in ops[1:]:
            ctx.count("op " + o.split()[0])
        if skip:
            skipped[skip] = skipped.get(skip, 0) + 1
        if problems and first_problem is None:
            first_problem = (ops, problems)
        if drv is not None:
            model = models[si]
            m2 = [canon_dump(x) if ops[i] == "dump" else x for i, x in enumerate(model)]
            o2 = [canon_dump(x) if ops[i] == "dump" else x for i, x in enumerate(outs)]
            if m2 != o2 and first_diff is None:
                k = next(i for i in range(len(ops)) if m2[i] != o2[i])
                first_diff = (ops, k, m2[k], o2[k])
    ctx.extra["oracle_skipped"] = skipped
    ctx.sample({"ops": seqs[0]})
    if len(seqs) > 1:
        ctx.sample({"ops": seqs[1]})
    if first_problem:
        ops, problems = first_problem
        small = shrink(ops, lambda c: bool(oracle(c)[1]))
        p = oracle(small)[1][0]
        ctx.fail("key %s returned by `%s` does not denote the described function under %s (ops: %s)" % (p[2], p[1], p[3], "; ".join(small)),
                 {"ops": small, "problem": p}, {"kind": "truth-table", "op": p[1].split()[0]})
    if first_diff:
        ops, k, m, i = first_diff
        ctx.disagree("Formula model vs problog.formula", "op #%d `%s`: model %s | implementation %s | sequence: %s" % (
            k, ops[k], m, i, "; ".join(ops[:k + 1])))
    ctx.obligation("correspondence: model = implementation (keys + full store) on %d sequences" % len(seqs),
                   first_diff is None and drv is not None, "" if first_diff is None else "first difference at op %d" % first_diff[1])
    return ctx.finish("proof")
