"""C26 — subquery/2,3 computes the same probabilities as top-level inference.

Subject: `_builtin_subquery` / `_create_evaluator_and_semiring` (problog/engine_builtin.py).
Specification: `subquery(G, P[, E])` binds P, per answer of G, to the conditional probability of that answer given the
evidence list E under the distribution semantics, i.e. to `Sem.run prog [G] E` (Lean, executed by the compiled driver
`Drivers.Spine`, op SEM) — the same value the top-level inference has to report for `query(G). evidence(E).`.

Every generated program is run three ways:
  * wrapped:   clauses + `w_i(Vars, P) :- subquery(goal_i, P[, EvidenceList]).` + `query(w_i(_, .., _)).`
  * top level: clauses + `query(goal_i).` + `evidence(e).` for every element of the evidence list
  * Lean `Sem` on the harness's ground instantiation (spine.reference) with the same queries/evidence.
A failure of the property is "bound P differs from the top-level answer" (decided against the real top-level run);
the comparison with `Sem` is the independent oracle that tells which side is wrong and is reported too."""
import copy

import semcheck
import spine
import tasks_util15 as tasks_util
from lib import close, pmap

MODULE = "ProbLogProofs.Properties.C26"
THEOREMS = [
    "ProbLogProofs.C26.C26_spec_is_run",
    "ProbLogProofs.C26.C26_spec_independent_of_other_queries",
    "ProbLogProofs.C26.C26_spec_goal_order_irrelevant",
]

MANIFEST = {
    "level": "other",
    "technique": "differential check of the real subquery/2,3 builtin against the real top-level inference and against the "
                 "Lean possible-world specification Sem (compiled driver) on generated programs with deterministic wrapper "
                 "rules; Lean theorems only state that the specification value is Sem.run and does not depend on what "
                 "else is asked",
    "text": "subquery(G,P[,E]) is specified as the conditional probability Sem.run prog [G] E (num/z). The Lean file proves "
            "that this value is the one `Sem.run` gives G inside any larger query list with the same evidence "
            "(C08's independence theorem), so comparing a subquery's answer with a top-level run that asks several "
            "queries at once is comparing the same specification value; and that under valid annotations the specified "
            "value lies in [0,1] whenever it is defined (C26_spec_in_unit_interval). The builtin itself (a fresh engine grounding "
            "into a fresh formula, evidence list labelled evidence+, default evaluator/semiring) is not modelled; it is "
            "tied extensionally: bound P vs the real top-level answer vs Sem on every generated program (ground and "
            "non-ground goals, goals bound by a generator literal, subquery/2 and subquery/3 with empty, positive and "
            "negative evidence lists, inconsistent lists).",
    "note": "Level 'other': no theorem beyond the specification is meaningful here (the property is an equation between "
            "two runs of the same pipeline, whose correctness is C01's subject). Not covered: subquery/5 with named "
            "semiring/evaluator, subquery_in_scope, non-ground evidence lists, wrappers used under probabilistic "
            "context. Programs on which the *top-level* run raises a non-evidence error are C01's business and only "
            "counted; a disagreement with the joint top-level run is re-examined against one top-level run per "
            "subquery call (query(goal) alone + the evidence) and only reported if it persists there. Floats vs exact "
            "rationals at 1e-9.",
    "design_ref": "DESIGN.md §6 C26",
}

STYLES = ["direct", "dom", "sub3-empty"]


def make_case(P, rng):
    """P: evidence-free generated program. Returns the case dict (picklable, JSON-able)."""
    P = copy.deepcopy(P)
    evl = []
    if rng.random() < 0.6:
        Q = copy.deepcopy(P)
        spine.add_evidence(Q, rng, inconsistent=rng.random() < 0.08)
        evl = Q["evidence"]
        if rng.random() < 0.3:
            evl = [(a, True) for a, v in evl if v] or evl   # positive-only lists (the documented use)
    P["evidence"] = []
    styles = []
    for _ in P["queries"]:
        st = rng.choice(STYLES if not evl else ["direct", "dom"])
        styles.append(st)
    return {"program": P, "evlist": evl, "styles": styles}


def ev_src(evl):
    return "[" + ", ".join(spine.atom_s(a) if v else "\\+" + spine.atom_s(a) for a, v in evl) + "]"


def wrapper_src(case):
    """(source text, meta) — meta[i] = (wrapper name, pred, argument template: constant or ('v', slot))."""
    P, evl = case["program"], case["evlist"]
    L = [spine.stmt_src(s) for s in P["stmts"]]
    meta = []
    need_dom = False
    for i, ((p, args), st) in enumerate(zip(P["queries"], case["styles"])):
        w = "vw%d" % i
        tmpl, vs = [], []
        for x in args:
            if x == "_":
                v = "V%d" % len(vs)
                vs.append(v)
                tmpl.append(("v", len(vs) - 1))
            else:
                tmpl.append(x)
        goal = spine.atom_s((p, tuple(vs[t[1]] if isinstance(t, tuple) else t for t in tmpl)))
        head = "%s(%s)" % (w, ", ".join(vs + ["P"]))
        body = []
        if st == "dom":
            need_dom = need_dom or bool(vs)
            body += ["vdom(%s)" % v for v in vs]
        if evl:
            body.append("subquery(%s, P, %s)" % (goal, ev_src(evl)))
        elif st == "sub3-empty":
            body.append("subquery(%s, P, [])" % goal)
        else:
            body.append("subquery(%s, P)" % goal)
        L.append("%s :- %s." % (head, ", ".join(body)))
        L.append("query(%s(%s))." % (w, ", ".join(["_"] * (len(vs) + 1))))
        meta.append((w, p, tmpl))
    if need_dom:
        L = ["vdom(%s)." % c for c in P["consts"]] + L
    return "\n".join(L), meta


def top_program(case):
    T = copy.deepcopy(case["program"])
    T["evidence"] = list(case["evlist"])
    return T


def run_wrapped(src, meta, timeout=5):
    """Real run of the wrapped program. ("ok", [(goal atom text, P, probability of the wrapper answer, ground)])."""
    from problog.program import PrologString
    from problog import get_evaluatable
    from problog.logic import Var

    def body():
        r = get_evaluatable().create_from(PrologString(src)).evaluate()
        by = {w: (p, tmpl) for w, p, tmpl in meta}
        out = []
        for k, v in r.items():
            if k.functor not in by:
                out.append((str(k), None, float(v), False))
                continue
            p, tmpl = by[k.functor]
            a = k.args
            ground = True
            gargs = []
            for t in tmpl:
                if isinstance(t, (tuple, list)):
                    x = a[t[1]]
                    if isinstance(x, Var) or isinstance(x, int) or not x.is_ground():
                        ground = False
                    gargs.append(str(x))
                else:
                    gargs.append(t)
            pv = a[-1]
            try:
                pf = float(pv)
            except Exception:
                pf = None
            out.append((spine.atom_s((p, tuple(gargs))), pf, float(v), ground))
        return sorted(out, key=str)
    try:
        return ("ok", spine.with_timeout(timeout, body))
    except spine.Timeout:
        return ("error", ("run", "Timeout", ""))
    except RecursionError as e:
        return ("error", ("run", "RecursionError", tasks_util.site_of(e)))
    except Exception as e:
        return ("error", ("run", type(e).__name__, tasks_util.site_of(e)))


def work(case):
    src, meta = wrapper_src(case)
    sub = run_wrapped(src, meta)
    top = semcheck.run_cfg(spine.to_src(top_program(case)), None, timeout=5)
    return sub, top


def judge(case, sem, sub, top, ctx=None):
    """-> list of (what, signature). Property failures only (subquery vs real top level); `sem` classifies."""
    out = []
    T = top_program(case)
    has_ev = bool(case["evlist"])
    base = {"evidence_list": has_ev}
    if sub[0] == "error" and sub[1][1] == "Timeout" or top[0] == "error" and top[1][1] == "Timeout":
        if ctx:
            ctx.count("timeout")
        return out
    if top[0] == "error" and top[1][1] != "InconsistentEvidenceError":
        if ctx:
            ctx.count("top-level error %s (C01's subject)" % top[1][1])
        return out
    if top[0] == "error":
        # P(evidence) = 0 at top level: the subquery has no defined value either
        if sub[0] == "error" and sub[1][1] == "InconsistentEvidenceError":
            return out
        if sem is not None and sem["z"] != 0:
            if ctx:
                ctx.count("top-level wrong-inconsistent (C01's subject)")
            return out
        out.append(("subquery answered %s although the evidence list has probability 0 (top level: "
                    "InconsistentEvidenceError)" % (sub[1],), dict(base, kind="missing-inconsistent")))
        return out
    if sub[0] == "error":
        name, site = sub[1][1], sub[1][2]
        if name == "InconsistentEvidenceError":
            out.append(("subquery raised InconsistentEvidenceError, top level answers %s" % (top[1],),
                        dict(base, kind="wrong-inconsistent")))
        else:
            out.append(("subquery run raised %s at %s; top level answers %s" % (name, site, top[1]),
                        dict(base, kind="exception", exc=name, site=site)))
        return out
    topv = semcheck.canon_results(top[1])
    subv = {}
    for goal, pf, v, ground in sub[1]:
        if pf is None:
            out.append(("wrapper answer %s does not bind P to a number" % goal, dict(base, kind="unbound")))
            continue
        if not ground:
            if pf != 0:
                out.append(("non-ground answer %s with P = %r" % (goal, pf), dict(base, kind="nonground-answer")))
            continue
        if not close(v, 1.0):
            out.append(("deterministic wrapper answer for %s has probability %r" % (goal, v),
                        dict(base, kind="wrapper-probability")))
        if goal in subv and not close(subv[goal], pf):
            out.append(("two different values bound for %s: %r and %r" % (goal, subv[goal], pf),
                        dict(base, kind="ambiguous")))
        subv[goal] = pf
    for k in sorted(set(topv) | set(subv)):
        a, b = topv.get(k, 0.0), subv.get(k, 0.0)
        if not close(b, a):
            s = None if sem is None else sem["probs"].get(k)
            out.append(("%s: subquery binds P = %r, top level reports %r (Sem: %s)" % (k, b, a, s),
                        dict(base, kind="wrong-probability", agrees_with_sem=(s is not None and close(b, s)))))
    if not out and sem is not None and sem["undef"] == 0 and sem["z"] != 0:
        # independent oracle: both agree with each other; do they agree with the specification?
        for k, s in sem["probs"].items():
            if not close(subv.get(k, 0.0), s):
                if ctx:
                    ctx.count("subquery = top level but both differ from Sem (C01's subject)")
                break
    return out


def per_call_top(case):
    """The exact top-level counterpart of every subquery call: one run `query(goal). evidence(E).` per call (a wrapper
    whose goal variables are bound by the generator literal calls subquery once per ground instance)."""
    import itertools
    P = case["program"]
    merged = {}
    for (p, args), st in zip(P["queries"], case["styles"]):
        if st == "dom":
            slots = [P["consts"] if x == "_" else [x] for x in args]
            goals = [(p, tuple(v)) for v in itertools.product(*slots)]
        else:
            goals = [(p, tuple(args))]
        for g in goals:
            T = top_program(case)
            T["queries"] = [g]
            r = semcheck.run_cfg(spine.to_src(T), None, timeout=5)
            if r[0] == "error":
                return r
            merged.update(semcheck.canon_results(r[1]))
    return ("ok", merged)


def confirm(case, sem, sub, fails, ctx=None):
    """A disagreement with the joint top-level run (all goals asked at once) is a failure of *this* property only if it
    persists against the per-call top-level runs; otherwise the top level itself depends on what else is asked
    (C08's / C01's subject, e.g. the false NegativeCycle finding F1) and the subquery does what the top level does."""
    if not fails:
        return fails
    top2 = per_call_top(case)
    fails2 = judge(case, sem, sub, top2, None)
    if not fails2 and ctx:
        ctx.count("disagreement with the joint top-level run explained by the per-goal top-level run (%s; C08's subject)"
                  % (top2[1][1] if top2[0] == "error" else "values"))
    return fails2


def same(a, b):
    return a["kind"] == b["kind"] and a.get("exc") == b.get("exc") and a.get("site") == b.get("site")


def run(ctx):
    ctx.rule = ("typed random programs of the C01 fragment without top-level evidence + one deterministic wrapper rule per "
                "goal calling subquery/2 or subquery/3 (ground / non-ground goals, goal variables bound by a generator "
                "literal, evidence lists sampled from a world with positive and negative literals, 8% arbitrary lists); "
                "a case = one program (wrapped run + top-level run + Sem); non-trivial = more than one world and at least "
                "one goal instance with probability strictly between 0 and 1")
    ctx.proof_phase(MODULE, THEOREMS)
    ctx.proof_phase("ProbLogProofs.Properties.C01SemProb", ["ProbLogProofs.C01.C26_spec_in_unit_interval"])
    drv = ctx.driver("Drivers.Spine")
    if drv is None:
        return ctx.finish("other")
    rng = ctx.sub_rng("programs")
    if ctx.replay_in:
        import json
        rp = json.load(open(ctx.replay_in))["replay"]
        c = rp["case"]
        c["program"] = tasks_util.load_program(c["program"])
        c["evlist"] = [(tuple(tasks_util._tup(a)), v) for a, v in c["evlist"]]
        cases = [c]
    else:
        n = ctx.budget(160, 4000)
        cases = [make_case(spine.gen_program(rng, evidence=False), rng) for _ in range(n)]
    sems = semcheck.spec_batch(drv, [top_program(c) for c in cases])
    results = pmap(work, cases, chunksize=2)
    nshrunk = 0
    nagree = 0
    for case, sem, (sub, top) in zip(cases, sems, results):
        src, meta = wrapper_src(case)
        if sem is not None and sem["undef"] > 0:
            ctx.count("outside-fragment(non-two-valued)")
            continue
        if sem is None:
            # too many worlds for the naive specification: the subquery is still compared with the real top level
            ctx.count("Sem skipped (too many worlds): top level only")
            nontrivial = top[0] == "ok" and any(0 < v < 1 for v in top[1].values())
        else:
            nontrivial = sem["nworlds"] > 1 and any(v is not None and 0 < v < 1 for v in sem["probs"].values())
        ctx.case(src, nontrivial=nontrivial)
        ctx.count("evidence-list:%s" % ("none" if not case["evlist"] else
                                        ("negative-literal" if any(not v for _, v in case["evlist"]) else "positive")))
        for st in case["styles"]:
            ctx.count("wrapper:" + st)
        for (p, args) in case["program"]["queries"]:
            ctx.count("goal:" + ("non-ground" if "_" in args else "ground"))
        if sem is not None and sem["z"] == 0:
            ctx.count("inconsistent-evidence-list")
        if len(ctx.samples) < 3 and sem is not None:
            ctx.sample({"wrapped": src, "subquery": str(sub[1])[:300], "top": str(top[1])[:300],
                        "spec": {k: str(v) for k, v in sem["probs"].items()}})
        fails = confirm(case, sem, sub, judge(case, sem, sub, top, ctx), ctx)
        if not fails and sub[0] == "ok" and top[0] == "ok":
            nagree += 1
        seen = []
        for what, sig in fails:
            if any(same(sig, s) for s in seen):
                continue
            seen.append(sig)

            def still(c2, sig=sig, case=case):
                cc = dict(case, program=c2, styles=case["styles"][:len(c2["queries"])] +
                          ["direct"] * max(0, len(c2["queries"]) - len(case["styles"])))
                cc["program"] = dict(c2, evidence=[])
                try:
                    s2 = semcheck.spec_batch(drv, [top_program(cc)])[0]
                except Exception:
                    return False
                sub2, top2 = work(cc)
                return any(same(s, sig) for _, s in confirm(cc, s2, sub2, judge(cc, s2, sub2, top2)))
            small = case
            if nshrunk < 2 and ctx.known_match(sig) is None:
                try:
                    # queries and styles are aligned: shrink with a single style to keep them aligned
                    c1 = dict(case, styles=[case["styles"][0]] * len(case["styles"]))
                    sub1, top1 = work(c1)
                    if any(same(s, sig) for _, s in confirm(c1, sem, sub1, judge(c1, sem, sub1, top1))):
                        sp = tasks_util.shrink_program(c1["program"], lambda c2: still(c2, case=c1))
                        small = dict(c1, program=dict(sp, evidence=[]), styles=c1["styles"][:len(sp["queries"])])
                except Exception:
                    small = case
                nshrunk += 1
                if small is not case:
                    try:
                        s2 = semcheck.spec_batch(drv, [top_program(small)])[0]
                        sub2, top2 = work(small)
                        for w2, g2 in confirm(small, s2, sub2, judge(small, s2, sub2, top2)):
                            if same(g2, sig):
                                what = w2       # describe the shrunk program, not the original one
                                break
                    except Exception:
                        pass
            ssrc = wrapper_src(small)[0]
            ctx.fail(what + " | wrapped program: " + ssrc.replace("\n", " "),
                     {"case": small, "wrapped_src": ssrc, "top_src": spine.to_src(top_program(small))}, sig)
    ctx.obligation("correspondence: subquery's bound P = real top-level answer on the generated programs",
                   not ctx.failures, "%d programs with both runs answering and agreeing" % nagree)
    return ctx.finish("other", MANIFEST["text"])
