"""C23 — k-best anytime bounds are sound and tight on completion.

Implementation: `get_evaluatable('kbest')` (KBestFormula/KBestEvaluator/Border, bundled maxsatz) on generated
evidence-free programs, and the explain task (`KBestFormula.create_from(db, label_all=True).evaluate(explain=[])`).
Specification: exact probabilities from the Lean specification `Sem` (driver op SEM): a single value must equal the
exact probability, an interval must contain it (1e-9); the explain task's proofs must sum to it per query.
Validation of the solver (the hypotheses of the Lean theorems, independent of the model): by enumeration of the
choices of ProbLog's ground program every returned solution is a proof of the border's goal (all worlds extending it
satisfy the query / its negation), its probability is the weight of those worlds, it excludes the earlier solutions
of its border, and an exhausted border covers every world of its goal.
Lean model (KBest.lean) on the same artefacts: the partial weighted DIMACS text of every solver call, `from_partial`,
and the evaluate loop (which border is updated, values, result shape) replayed on the recorded solver answers."""
import re
from fractions import Fraction as F

import spine
import semcheck
import mpe_util as mu
import kbest_util as ku
from lib import close, pmap

MODULE = "ProbLogProofs.Properties.C23"
THEOREMS = [
    "ProbLogProofs.C23.C23_partial_sound",
    "ProbLogProofs.C23.C23_disjoint",
    "ProbLogProofs.C23.C23_bounds",
    "ProbLogProofs.C23.C23_complete",
    "ProbLogProofs.C23.C23_loop_sound",
]

MANIFEST = {
    "level": "proof",
    "technique": "Lean 4 theorems about a hand-written model of the partial (pt/ct) encoding, from_partial, Border.update "
                 "and KBestEvaluator.evaluate with the MaxSAT solver as an arbitrary oracle; correspondence of the model "
                 "with kbest.py/cnf_formula.py on recorded runs; per-run validation of every solver answer by enumeration; "
                 "results against the Lean specification Sem",
    "text": "Theorems: a three-valued assignment satisfying the pt/ct encoding of an acyclic Clark completion agrees, on "
            "every node it decides, with every total model of the completion that agrees with it on the atoms "
            "(C23_partial_sound: so a solution proves the query); a solution found after a blocking clause contains the "
            "negation of a literal of the blocked one (C23_disjoint); for pairwise exclusive proofs of q and of not q the "
            "sums bound P(q) from below and 1-P(q) from above, with equality when a border is exhausted (C23_bounds, "
            "C23_complete); the evaluate loop returns a single value equal to P(q) or an interval containing it for every "
            "oracle whose answers are valid (C23_loop_sound). Every run: kbest and explain on generated programs against "
            "Sem; every solver answer validated by enumeration; model vs implementation on DIMACS text, from_partial and "
            "the loop's decisions.",
    "note": "Trusted: Lean kernel + standard axioms; harness; maxsatz validated per answer, not modelled. The statement "
            "'probability of a solution = product of its literal weights' is checked per solution by enumeration, not "
            "proved (AD groups: the smart-constraint clauses force a group to be fully decided or fully open). The link "
            "between indicator-variable clauses and AD constraints is covered by the per-answer validation only.",
    "design_ref": "DESIGN.md §6 C23",
}


def gen(rng):
    return spine.gen_program(rng, evidence=False)


def exclusive(s1, s2):
    return any(-l in s2 for l in s1)


def work(job):
    """kbest + explain on one program; validation of every solver answer; artefacts for the model."""
    src, max_worlds, tmo = job
    res = dict(src=src, fails=[], lines=[], counts=[], skip=None, nontrivial=False, results=None, explain=None)
    r = ku.run_kbest(src, timeout=tmo)
    if r["status"] != "ok":
        if r["exc"] in ("Timeout", "NegativeCycle"):
            res["skip"] = r["exc"]
            return res
        res["fails"].append(("kbest: %s raised at %s" % (r["exc"], r["site"]),
                             dict(kind="exception", task="kbest", exc=r["exc"], site=r["site"])))
        return res
    res["results"] = r["results"]
    dag, cnf = r["dag"], r["cnf"]
    g = mu.Ground(dag)
    orc = mu.mpe_oracle(g, [], limit=max_worlds)
    worlds = orc["sat"] if orc else None
    res["nontrivial"] = len(g.atoms) >= 2 and any(k != "atom" for k in g.kind[1:])
    ncalls = sum(len(q["calls"]) for q in r["queries"])
    res["counts"].append("solver-calls<=%d" % (1 << max(0, ncalls - 1).bit_length()))
    weighted = sorted(cnf.get_weights().keys())
    from problog.evaluator import SemiringProbability
    pw = cnf.extract_weights(SemiringProbability())
    pw_s = " ".join("(%d %s %s)" % (i, mu.exact(a), mu.exact(b)) for i, (a, b) in pw.items())
    for q in r["queries"]:
        idx = q["index"]
        if idx is None or idx == 0:
            continue
        found = {"lower": [], "upper": []}
        order = ""
        answers = {"lower": [], "upper": []}
        shown = 0
        for c in q["calls"]:
            bd = c["border"]
            order += "U" if bd == "upper" else "L"
            answers[bd].append("N" if c.get("raw") is None else "(%s)" % " ".join(map(str, c["raw"])))
            if "text" in c and shown < 8:
                shown += 1
                res["lines"].append(("PARTIAL", "PARTIAL t t %d %s %s" % (c["atomcount"], ku.ser_clauses(c["clauses"]), c["logw"]), c["text"]))
                if c.get("raw") is not None:
                    res["lines"].append(("FROMPARTIAL", "FROMPARTIAL (weighted %s) (sol %s)" % (
                        " ".join(map(str, weighted)), " ".join(map(str, c["raw"]))), c["solution"]))
            sol = c["solution"]
            want = (bd == "lower")
            if worlds is None:
                continue
            if sol is not None:
                ext = [(w, t, v) for (w, t, v) in worlds if all((abs(l) in t) == (l > 0) for l in sol)]
                bad = [t for (w, t, v) in ext if g.key_val(v, idx) != want]
                if bad:
                    res["fails"].append(("kbest %s border of node %d: solution %s does not prove %s (counter-world %s)" % (
                        bd, idx, sol, "the query" if want else "its negation", sorted(bad[0])),
                        dict(kind="unsound-proof", task="kbest", border=bd)))
                elif not close(c["improvement"], sum(w for (w, t, v) in ext)):
                    res["fails"].append(("kbest %s border of node %d: solution %s counted with probability %r, its worlds weigh %s" % (
                        bd, idx, sol, c["improvement"], float(sum(w for (w, t, v) in ext))),
                        dict(kind="proof-probability", task="kbest", border=bd)))
                elif any(not exclusive(sol, s2) for s2 in found[bd]):
                    res["fails"].append(("kbest %s border of node %d: solution %s overlaps an earlier solution %s" % (
                        bd, idx, sol, found[bd]), dict(kind="overlapping-proofs", task="kbest", border=bd)))
                found[bd].append(sol)
            else:
                unc = [t for (w, t, v) in worlds if w > 0 and g.key_val(v, idx) == want and
                       not any(all((abs(l) in t) == (l > 0) for l in s) for s in found[bd])]
                if unc:
                    res["fails"].append(("kbest %s border of node %d reported exhausted, world %s is not covered by %s" % (
                        bd, idx, sorted(unc[0]), found[bd]), dict(kind="incomplete-on-exhaustion", task="kbest", border=bd)))
        if ncalls < 400 and q["calls"]:
            res["lines"].append(("LOOP", "LOOP 1/1000000000 f (weighted %s) (pw %s) (lower %s) (upper %s)" % (
                " ".join(map(str, weighted)), pw_s, " ".join(answers["lower"]), " ".join(answers["upper"])),
                (q["result"], order)))
    # explain task
    e = ku.run_kbest(src, explain=True, timeout=tmo)
    if e["status"] != "ok":
        if e["exc"] not in ("Timeout", "NegativeCycle"):
            res["fails"].append(("explain: %s raised at %s" % (e["exc"], e["site"]),
                                 dict(kind="exception", task="explain", exc=e["exc"], site=e["site"])))
    else:
        keys = {}
        for n, i, l in e["cnf"].labeled():
            keys.setdefault(i, []).append(str(n))
        shared = set(n for i, ns in keys.items() if len(ns) > 1 and i is not None and i != 0 for n in ns)
        res["explain"] = dict(results=e["results"], sums=ku.parse_explanation(e["explanation"]), shared=sorted(shared),
                              lines=e["explanation"][:12])
    return res


def program_fails(P, sem, r):
    """Spec-level failures of one program (signature list) given the worker result and the Sem result."""
    out = [sg for _, sg in r["fails"]]
    if r["skip"] or sem is None or sem["undef"] > 0:
        return out
    if r["results"] is not None:
        val = semcheck.canon_results(r["results"])
        for k, v in sem["probs"].items():
            got = val.get(k)
            if got is None:
                if v != 0:
                    out.append(dict(kind="unreported", task="kbest"))
            elif isinstance(got, tuple):
                if not (got[0] - 1e-9 <= float(v) <= got[1] + 1e-9):
                    out.append(dict(kind="interval-misses-exact", task="kbest"))
            elif not close(got, v):
                out.append(dict(kind="single-wrong", task="kbest"))
    ex = r["explain"]
    if ex is not None:
        for k, v in sem["probs"].items():
            s = ex["sums"].get(k)
            if (s is None and v != 0 and k in ex["results"]) or (s is not None and abs(s[0] - float(v)) > 1e-6):
                out.append(dict(kind="explain-sum", task="explain", shared_node=k in ex["shared"]))
    return out


def shrink(P, sig, sem_drv, max_worlds, tmo, budget=45):
    from props.c01 import shrink_program
    calls = [0]

    def still(c):
        calls[0] += 1
        if calls[0] > budget:
            return False
        sem = semcheck.spec_batch(sem_drv, [c])[0]
        r = work((spine.to_src(c), max_worlds, tmo))
        return any(s.get("kind") == sig.get("kind") and s.get("task") == sig.get("task") for s in program_fails(c, sem, r))
    try:
        return shrink_program(P, still)
    except Exception:
        return P


def same_text(model_text, impl_text):
    if model_text == impl_text:
        return True
    try:
        a, b = mu.parse_wcnf(model_text), mu.parse_wcnf(impl_text)
    except Exception:
        return False
    if a[0] != b[0] or a[1] != b[1] or abs(a[2] - b[2]) > 1 or len(a[3]) != len(b[3]):
        return False
    return all(l1 == l2 and (w1 == w2 or (w1 == a[2] and w2 == b[2])) for (w1, l1), (w2, l2) in zip(a[3], b[3]))


def unq(s):
    return s[1:-1].replace("\\n", "\n").replace('\\"', '"').replace("\\\\", "\\") if s.startswith('"') else s


def run(ctx):
    ctx.rule = ("typed random evidence-free programs of the C01 fragment; a case = one query instance of one program under "
                "kbest + the explain task; distinct = distinct source; non-trivial = >= 2 choice atoms and a compound node")
    ctx.proof_phase(MODULE, THEOREMS)
    drv = ctx.driver("Drivers.C23")
    sem_drv = ctx.driver("Drivers.Spine")
    if drv is None or sem_drv is None:
        return ctx.finish("proof")
    rng = ctx.sub_rng("programs")
    nprog = ctx.budget(45, 1500)
    if ctx.replay_in:
        import json
        rp = json.load(open(ctx.replay_in))["replay"]
        progs = [ku.load_program(rp["program"])]
    else:
        progs = [gen(rng) for _ in range(nprog)]
    sems = semcheck.spec_batch(sem_drv, progs)
    jobs = [(spine.to_src(P), ctx.budget(1 << 11, 1 << 13), ctx.budget(6, 60)) for P in progs]
    results = pmap(work, jobs, chunksize=1)
    lines, meta = [], []
    nshrunk = [0]
    for P, sem, r in zip(progs, sems, results):
        src = r["src"]
        if r["skip"]:
            ctx.count("skipped:" + r["skip"])
            continue
        if sem is None or sem["undef"] > 0:
            ctx.count("skipped:no-exact-value")
            continue
        ctx.programs += 1
        for c in r["counts"]:
            ctx.count(c)
        fails = list(r["fails"])
        if r["results"] is not None:
            val = semcheck.canon_results(r["results"])
            for k, v in sem["probs"].items():
                got = val.get(k)
                ctx.case(src + "|" + k, nontrivial=r["nontrivial"])
                if got is None:
                    if v != 0:
                        fails.append(("kbest: %s not reported, exact probability %s" % (k, v), dict(kind="unreported", task="kbest")))
                elif isinstance(got, tuple):
                    ctx.count("interval")
                    if not (got[0] - 1e-9 <= float(v) <= got[1] + 1e-9):
                        fails.append(("kbest: interval %r for %s does not contain the exact probability %s = %r" % (got, k, v, float(v)),
                                      dict(kind="interval-misses-exact", task="kbest")))
                else:
                    ctx.count("single-value")
                    if not close(got, v):
                        fails.append(("kbest: %s = %r, exact probability %s = %r" % (k, got, v, float(v)),
                                      dict(kind="single-wrong", task="kbest")))
        ex = r["explain"]
        if ex is not None:
            for k, v in sem["probs"].items():
                s = ex["sums"].get(k)
                if s is None:
                    if v != 0 and k in ex["results"]:
                        fails.append(("explain: no proof listed for %s, exact probability %s" % (k, v),
                                      dict(kind="explain-sum", task="explain", shared_node=k in ex["shared"])))
                elif abs(s[0] - float(v)) > 1e-6:
                    fails.append(("explain: the %d proofs of %s sum to %r, exact probability %s = %r (%s)" % (
                        s[1], k, s[0], v, float(v), "; ".join(ex["lines"])),
                        dict(kind="explain-sum", task="explain", shared_node=k in ex["shared"])))
            ctx.count("explained")
        if len(ctx.samples) < 3:
            ctx.sample({"src": src, "kbest": str(r["results"])[:300], "exact": {k: str(v) for k, v in sem["probs"].items()}})
        for what, sig in fails[:3]:
            small = P
            if nshrunk[0] < 1 and ctx.known_match(sig) is None and not ctx.replay_in:
                nshrunk[0] += 1
                small = shrink(P, sig, sem_drv, jobs[0][1], jobs[0][2])
            ssrc = spine.to_src(small)
            ctx.fail(what + " | program: " + ssrc.replace("\n", " "), {"program": small, "src": ssrc}, sig)
        for op, line, exp in r["lines"]:
            lines.append(line)
            meta.append((op, src, exp))
    first = None
    ncmp = {}
    outs = drv.run(lines) if lines else []
    for out, (op, src, exp) in zip(outs, meta):
        ok = True
        ncmp[op] = ncmp.get(op, 0) + 1
        if op == "PARTIAL":
            out = unq(out)
            ok = same_text(out, exp)
        elif op == "FROMPARTIAL":
            ok = out == "(" + " ".join(map(str, exp)) + ")"
        elif op == "LOOP":
            result, order = exp
            m = re.match(r"(single|interval) (\S+)(?: (\S+))? \| (\w*) \| (tie|notie)$", out)
            if not m:
                ok = False
            elif m.group(5) == "tie" and m.group(4) != order:
                ctx.count("loop-tie")       # exact tie of two improvements: the float comparison may pick either border
            else:
                ok = m.group(4) == order
                if isinstance(result, tuple):
                    ok = ok and m.group(1) == "interval" and close(result[0], F(m.group(2))) and close(result[1], F(m.group(3)))
                else:
                    ok = ok and m.group(1) == "single" and close(result, F(m.group(2)))
        if not ok and first is None:
            first = (op, src, out, exp)
            ctx.disagree("%s model vs implementation" % op, "program %s | model %s | implementation %s" % (
                src.replace("\n", " ")[:500], str(out)[:700], str(exp)[:700]))
    ctx.extra["model_comparisons"] = ncmp
    ctx.obligation("correspondence: KBest model = implementation on %d artefacts (%s)" % (len(lines), ncmp),
                   first is None and len(lines) > 0, "" if first is None else first[0])
    return ctx.finish("proof")
