"""C34 — utility containers behave as their abstract models.

Tie: hand-written Lean model (lean/ProbLogModel/Containers.lean) run step by step next to problog.util on the
same random operation sequences (exact correspondence of every observable and of the internal heap array/index).
Search oracle (independent of the Lean model): plain Python list / dict / set references."""
from lib import Infra

MODULE = "ProbLogProofs.Properties.C34"
THEOREMS = [
    "ProbLogProofs.C34.C34_oset_mem_add",
    "ProbLogProofs.C34.C34_oset_add_nodup",
    "ProbLogProofs.C34.C34_oset_discard_nodup",
    "ProbLogProofs.C34.C34_oset_mem_discard",
    "ProbLogProofs.C34.C34_oset_add_order",
    "ProbLogProofs.C34.C34_oset_discard_order",
    "ProbLogProofs.C34.C34_oset_first_insertion_order",
    "ProbLogProofs.C34.C34_oset_ofList_nodup",
    "ProbLogProofs.C34.C34_oset_mem_ofList",
    "ProbLogProofs.C34.C34_oset_mem_union",
    "ProbLogProofs.C34.C34_oset_mem_inter",
    "ProbLogProofs.C34.C34_oset_mem_sub",
    # BitVector = set of naturals
    "ProbLogProofs.C34.C34_bv_contains_empty",
    "ProbLogProofs.C34.C34_bv_contains_add",
    "ProbLogProofs.C34.C34_bv_contains_and",
    "ProbLogProofs.C34.C34_bv_contains_or",
    "ProbLogProofs.C34.C34_bv_contains_iand",
    "ProbLogProofs.C34.C34_bv_contains_ior",
    "ProbLogProofs.C34.C34_bv_iter_sorted",
    "ProbLogProofs.C34.C34_bv_mem_iter",
    "ProbLogProofs.C34.C34_bv_wf_empty",
    "ProbLogProofs.C34.C34_bv_wf_add",
    "ProbLogProofs.C34.C34_bv_wf_and",
    "ProbLogProofs.C34.C34_bv_wf_or",
    "ProbLogProofs.C34.C34_bv_len",
    "ProbLogProofs.C34.C34_bv_nonzero",
    # UHeap = finite map item -> key with delete-min
    "ProbLogProofs.C34.C34_uheap_empty_wf",
    "ProbLogProofs.C34.C34_uheap_empty_map",
    "ProbLogProofs.C34.C34_uheap_items_distinct",
    "ProbLogProofs.C34.C34_uheap_map_iff_slot",
    "ProbLogProofs.C34.C34_uheap_root_min",
    "ProbLogProofs.C34.C34_uheap_push_wf",
    "ProbLogProofs.C34.C34_uheap_push_map",
    "ProbLogProofs.C34.C34_uheap_push_is_new",
    "ProbLogProofs.C34.C34_uheap_push_len",
    "ProbLogProofs.C34.C34_uheap_pop_wf",
    "ProbLogProofs.C34.C34_uheap_pop_min",
    "ProbLogProofs.C34.C34_uheap_pop_map",
    "ProbLogProofs.C34.C34_uheap_pop_len",
    "ProbLogProofs.C34.C34_uheap_pop_none",
    "ProbLogProofs.C34.C34_uheap_pops_nondecreasing",
    "ProbLogProofs.C34.C34_uheap_reachable_wf",
    "ProbLogProofs.C34.C34_uheap_drain_sorted",
    "ProbLogProofs.C34.C34_uheap_drain_entries",
]

MANIFEST = {
    "level": "proof",
    "technique": "Lean 4 theorems about a hand-written model of util.py's containers + step-by-step correspondence "
                 "of model and implementation on random operation sequences",
    "text": "Lean theorems: OrderedSet model is a duplicate-free list in first-insertion order with set semantics for "
            "|,&,-; BitVector model is a set of naturals (contains after add/&/|, strictly increasing iteration of exactly "
            "the members, len = number of members, bool = non-empty); UHeap model keeps the invariant 'index map "
            "consistent with the array + heap order' under push (insert/update, is_new) and pop_with_key (returns and "
            "removes a minimum-key entry), so successive pops are non-decreasing; every run replays random operation sequences on problog.util and on the compiled Lean model and "
            "compares every observable (and UHeap's internal array/index) exactly; an independent list/dict/set "
            "oracle decides whether a disagreement is a property failure.",
    "note": "Trusted: Lean kernel, standard axioms, the harness and driver glue. The model is hand-written; it is tied "
            "to the code only on the operation sequences run. BitVector len/bool theorems assume every block < 2^32 "
            "(proved invariant of add/&/|). The real UHeap's _heap/_index are additionally checked against the "
            "invariant after every heap operation.",
    "design_ref": "DESIGN.md §6 C34",
}


# --------------------------------------------------------------------------- reference (spec) models in Python
class RefOSet:
    def __init__(self, it=()):
        self.l = []
        for x in it:
            self.add(x)

    def add(self, k):
        if k not in self.l:
            self.l.append(k)

    def discard(self, k):
        if k in self.l:
            self.l.remove(k)


def gen_ops(rng, n):
    """One mixed operation sequence over 3 OrderedSets, 2 heaps, 3 BitVectors."""
    ops = []
    for _ in range(n):
        c = rng.random()
        if c < 0.4:
            i = rng.randrange(3)
            r = rng.random()
            k = rng.randrange(-3, 9)
            if r < 0.35:
                ops.append("os %d add %d" % (i, k))
            elif r < 0.5:
                ops.append("os %d discard %d" % (i, k))
            elif r < 0.56:
                ops.append("os %d pop %s" % (i, rng.choice(["last", "first"])))
            elif r < 0.66:
                ops.append("os %d iter" % i)
            elif r < 0.7:
                ops.append("os %d rev" % i)
            elif r < 0.74:
                ops.append("os %d len" % i)
            elif r < 0.78:
                ops.append("os %d contains %d" % (i, k))
            elif r < 0.9:
                ops.append("os %d %s %d %d" % (i, rng.choice(["or", "and", "sub"]), rng.randrange(3), rng.randrange(3)))
            elif r < 0.96:
                j = rng.choice([x for x in range(3) if x != i])
                ops.append("os %d %s %d" % (i, rng.choice(["ior", "iand", "isub"]), j))
            elif r < 0.98:
                ops.append("os %d eq %d" % (i, rng.randrange(3)))
            else:
                ops.append("os %d new %s" % (i, " ".join(str(rng.randrange(-3, 9)) for _ in range(rng.randrange(6)))))
        elif c < 0.7:
            i = rng.randrange(2)
            r = rng.random()
            if r < 0.55:
                ops.append("uh %d push %d %d" % (i, rng.randrange(-5, 12), rng.randrange(0, 10)))
            elif r < 0.8:
                ops.append("uh %d pop" % i)
            elif r < 0.86:
                ops.append("uh %d peek" % i)
            elif r < 0.9:
                ops.append("uh %d len" % i)
            else:
                ops.append("uh %d dump" % i)
        else:
            i = rng.randrange(3)
            r = rng.random()
            big = rng.choice([rng.randrange(0, 40), rng.randrange(0, 200), rng.randrange(28, 36), rng.randrange(60, 70)])
            if r < 0.4:
                ops.append("bv %d add %d" % (i, big))
            elif r < 0.5:
                ops.append("bv %d contains %d" % (i, big))
            elif r < 0.6:
                ops.append("bv %d iter" % i)
            elif r < 0.66:
                ops.append("bv %d len" % i)
            elif r < 0.7:
                ops.append("bv %d bool" % i)
            elif r < 0.74:
                ops.append("bv %d blocks" % i)
            elif r < 0.88:
                ops.append("bv %d %s %d %d" % (i, rng.choice(["and", "or"]), rng.randrange(3), rng.randrange(3)))
            elif r < 0.98:
                j = rng.choice([x for x in range(3) if x != i])
                ops.append("bv %d %s %d" % (i, rng.choice(["ior", "iand"]), j))
            else:
                ops.append("bv %d new" % i)
    return ops


def lst(xs):
    return "(" + " ".join(str(x) for x in xs) + ")"


def run_impl(ops):
    """Run the real containers; returns (outputs, spec_problems)."""
    from problog.util import OrderedSet, UHeap, BitVector
    os_ = {}
    ro = {}
    uh, rh, keys = {}, {}, {}
    bv, rb = {}, {}
    out, bad = [], []

    def O(i):
        if i not in os_:
            os_[i] = OrderedSet()
            ro[i] = RefOSet()
        return os_[i], ro[i]

    def H(i):
        if i not in uh:
            keys[i] = {}
            uh[i] = UHeap(key=(lambda d: (lambda it: d[it]))(keys[i]))
            rh[i] = {}
        return uh[i], rh[i], keys[i]

    def B(i):
        if i not in bv:
            bv[i] = BitVector()
            rb[i] = set()
        return bv[i], rb[i]

    for n, op in enumerate(ops):
        t = op.split()
        kind, i, name, args = t[0], int(t[1]), t[2], t[3:]
        try:
            if kind == "os":
                s, r = O(i)
                if name == "new":
                    vals = [int(a) for a in args]
                    os_[i], ro[i] = OrderedSet(vals), RefOSet(vals)
                    res = "ok"
                elif name == "add":
                    s.add(int(args[0])); r.add(int(args[0])); res = "ok"
                elif name == "discard":
                    s.discard(int(args[0])); r.discard(int(args[0])); res = "ok"
                elif name == "pop":
                    try:
                        res = str(s.pop(last=(args[0] == "last")))
                        exp = r.l.pop(-1 if args[0] == "last" else 0)
                        if str(exp) != res:
                            bad.append((n, op, "pop returned %s, first-insertion-order set gives %s" % (res, exp)))
                    except KeyError:
                        res = "KeyError"
                        if r.l:
                            bad.append((n, op, "KeyError on non-empty set"))
                elif name == "iter":
                    res = lst(list(s))
                    if list(s) != r.l:
                        bad.append((n, op, "iteration %s is not first-insertion order %s" % (list(s), r.l)))
                elif name == "rev":
                    res = lst(list(reversed(s)))
                    if list(reversed(s)) != r.l[::-1]:
                        bad.append((n, op, "reversed iteration wrong"))
                elif name == "len":
                    res = str(len(s))
                    if len(s) != len(r.l):
                        bad.append((n, op, "len wrong"))
                elif name == "contains":
                    res = str(int(args[0]) in s).lower()
                    if (int(args[0]) in s) != (int(args[0]) in r.l):
                        bad.append((n, op, "contains wrong"))
                elif name in ("or", "and", "sub"):
                    (a, ra), (b, rb_) = O(int(args[0])), O(int(args[1]))
                    v = {"or": a | b, "and": a & b, "sub": a - b}[name]
                    exp = {"or": set(ra.l) | set(rb_.l), "and": set(ra.l) & set(rb_.l), "sub": set(ra.l) - set(rb_.l)}[name]
                    if set(v) != exp or len(list(v)) != len(exp):
                        bad.append((n, op, "set operation result %s has not the elements %s" % (list(v), sorted(exp))))
                    os_[i] = v
                    ro[i] = RefOSet(list(v))
                    res = "ok"
                elif name in ("ior", "iand", "isub"):
                    b, rb_ = O(int(args[0]))
                    before = list(r.l)
                    if name == "ior":
                        s |= b
                        exp = before + [x for x in rb_.l if x not in before]
                    elif name == "iand":
                        s &= b
                        exp = [x for x in before if x in rb_.l]
                    else:
                        s -= b
                        exp = [x for x in before if x not in rb_.l]
                    os_[i] = s
                    if list(s) != exp:
                        bad.append((n, op, "in-place %s gives %s, expected %s" % (name, list(s), exp)))
                    ro[i] = RefOSet(list(s))
                    res = "ok"
                elif name == "eq":
                    b, rb_ = O(int(args[0]))
                    res = str(s == b).lower()
                else:
                    raise Infra("bad op " + op)
            elif kind == "uh":
                h, r, kd = H(i)
                if name == "new":
                    del uh[i]
                    H(i)
                    res = "ok"
                elif name == "push":
                    key, item = int(args[0]), int(args[1])
                    kd[item] = key
                    isnew = h.push(item)
                    res = str(isnew).lower()
                    if isnew != (item not in r):
                        bad.append((n, op, "push returned is_new=%s" % isnew))
                    r[item] = key
                elif name == "pop":
                    if len(h) == 0:
                        res = "AssertionError"
                        if r:
                            bad.append((n, op, "heap empty but reference is not"))
                    else:
                        k, it = h.pop_with_key()
                        res = "%d %d" % (k, it)
                        if not r or k != min(r.values()) or r.get(it) != k:
                            bad.append((n, op, "pop returned (%s,%s); minimum key in reference map %s" % (k, it, r)))
                        r.pop(it, None)
                elif name == "peek":
                    if len(h) == 0:
                        res = "AssertionError"
                    else:
                        it = h.peek()
                        res = str(it)
                        if r.get(it) != min(r.values()):
                            bad.append((n, op, "peek is not a minimum-key item"))
                elif name == "len":
                    res = str(len(h))
                    if len(h) != len(r):
                        bad.append((n, op, "len wrong"))
                elif name == "dump":
                    res = lst("(%d %d)" % (k, it) for k, it in h._heap) + " " + lst(
                        "(%d %d)" % (it, p) for it, p in sorted(h._index.items()))
                else:
                    raise Infra("bad op " + op)
                # the invariant of the Lean theorems (HeapWF), evaluated on the real object after every operation
                hp, ix = uh[i]._heap, uh[i]._index
                if any(hp[(j - 1) // 2][0] > hp[j][0] for j in range(1, len(hp))):
                    bad.append((n, op, "heap order broken: %s" % (hp,)))
                elif len(ix) != len(hp) or any(ix.get(it) != p for p, (_, it) in enumerate(hp)):
                    bad.append((n, op, "index map inconsistent with the array: %s %s" % (hp, ix)))
                elif sorted(it for _, it in hp) != sorted(r) or any(r[it] != k for k, it in hp):
                    bad.append((n, op, "heap content %s is not the reference map %s" % (hp, r)))
            else:
                b, r = B(i)
                if name == "new":
                    del bv[i]
                    B(i)
                    res = "ok"
                elif name == "add":
                    b.add(int(args[0])); r.add(int(args[0])); res = "ok"
                elif name == "contains":
                    v = bool(int(args[0]) in b)
                    res = str(v).lower()
                    if v != (int(args[0]) in r):
                        bad.append((n, op, "contains wrong"))
                elif name == "iter":
                    res = lst(list(b))
                    if list(b) != sorted(r):
                        bad.append((n, op, "iteration %s, reference set %s" % (list(b), sorted(r))))
                elif name == "len":
                    res = str(len(b))
                    if len(b) != len(r):
                        bad.append((n, op, "len %d, reference %d" % (len(b), len(r))))
                elif name == "bool":
                    res = str(bool(b)).lower()
                    if bool(b) != bool(r):
                        bad.append((n, op, "bool wrong"))
                elif name == "blocks":
                    res = lst(b.blocks)
                elif name in ("and", "or"):
                    (x, rx), (y, ry) = B(int(args[0])), B(int(args[1]))
                    v = (x & y) if name == "and" else (x | y)
                    exp = (rx & ry) if name == "and" else (rx | ry)
                    if set(v) != exp:
                        bad.append((n, op, "%s gives %s, reference %s" % (name, sorted(v), sorted(exp))))
                    bv[i], rb[i] = v, set(exp)
                    res = "ok"
                elif name in ("ior", "iand"):
                    y, ry = B(int(args[0]))
                    if name == "ior":
                        b |= y
                        exp = r | ry
                    else:
                        b &= y
                        exp = r & ry
                    bv[i] = b
                    if set(b) != exp:
                        bad.append((n, op, "in-place %s gives %s, reference %s" % (name, sorted(b), sorted(exp))))
                    rb[i] = set(exp)
                    res = "ok"
                else:
                    raise Infra("bad op " + op)
        except Infra:
            raise
        except Exception as e:  # an exception the model does not predict
            res = "EXC:" + type(e).__name__
        out.append(res)
    return out, bad


def shrink(ops, pred):
    """Greedy delta-debugging: drop operations while `pred(ops)` stays true."""
    cur = list(ops)
    changed = True
    while changed:
        changed = False
        i = len(cur) - 1
        while i >= 0:
            cand = cur[:i] + cur[i + 1:]
            if pred(cand):
                cur = cand
                changed = True
            i -= 1
    return cur


def run(ctx):
    ctx.rule = ("random operation sequences over 3 OrderedSets, 2 UHeaps (keys via key function, updates), 3 BitVectors; "
                "a case = one sequence; distinct = distinct op sequences; non-trivial = at least 10 ops")
    ctx.proof_phase(MODULE, THEOREMS)
    drv = ctx.driver("Drivers.C34")
    nseq = ctx.budget(2000, 50000)
    length = ctx.budget(40, 100)
    rng = ctx.sub_rng("ops")
    seqs = [gen_ops(rng, rng.randrange(10, length + 1)) for _ in range(nseq)]
    if ctx.replay_in:
        import json
        seqs = [json.load(open(ctx.replay_in))["replay"]["ops"]]
    first_bad = None
    first_diff = None
    impls = []
    for ops in seqs:
        impl, bad = run_impl(ops)
        impls.append(impl)
        ctx.case(" ".join(ops), nontrivial=len(ops) >= 10)
        for o in ops:
            ctx.count(" ".join(o.split()[0:1] + o.split()[2:3]))
        if bad and first_bad is None:
            first_bad = (ops, bad)
    if drv is not None:
        # one driver process for all sequences; `reset` clears the model state between two sequences
        lines = []
        for ops in seqs:
            lines.append("reset")
            lines.extend(ops)
        out = drv.run(lines)
        pos = 0
        for ops, impl in zip(seqs, impls):
            model = out[pos + 1:pos + 1 + len(ops)]
            pos += 1 + len(ops)
            if model != impl and first_diff is None:
                k = next(i for i in range(len(ops)) if model[i] != impl[i])
                first_diff = (ops, k, model[k], impl[k])
    ctx.sample({"ops": seqs[0][:12]})
    if first_bad:
        ops, bad = first_bad
        small = shrink(ops, lambda c: bool(run_impl(c)[1]))
        b = run_impl(small)[1][0]
        sig = {"kind": "spec", "op": b[1].split()[0] + " " + b[1].split()[2]}
        ctx.fail("%s: %s (ops: %s)" % (b[1], b[2], "; ".join(small)), {"ops": small, "problem": b}, sig)
    if first_diff:
        ops, k, m, i = first_diff
        ctx.disagree("Containers model vs problog.util", "op #%d `%s`: model %s, implementation %s; sequence %s" % (
            k, ops[k], m, i, "; ".join(ops[:k + 1])))
    ctx.obligation("correspondence: model = implementation on %d sequences" % len(seqs), first_diff is None and drv is not None,
                   "" if first_diff is None else "first difference at op %d" % first_diff[1])
    return ctx.finish("proof")
