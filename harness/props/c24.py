"""C24 — learning from interpretations is a monotone EM producing valid parameters.

Subject: `LFIProblem` (problog/learning/lfi.py): `run`/`step`, `_evaluate_examples`, `_update`, `_normalize_weights`,
in the configuration of the command line (`problog lfi`: normalize=True, propagate_evidence=True, min_improv=1e-10).

Per generated case (program with `t(_)::` facts, `t(_)::` heads of annotated disjunctions with and without body,
`t(_)::` rules; a data set sampled from the program's own distribution: total choices drawn with the original
probabilities, least model by spine.lfp, complete / partial / derived-only observations):
  * the real EM loop is run iteration by iteration (the same calls and stopping rule as `LFIProblem.run`);
  * failing-input search (independent of the Lean model): the reported log-likelihoods never decrease, every weight
    is in [0,1], the learnable weights of an AD sum to at most 1, and — complete observation of a fact / of all heads of
    a body-less AD that have no other definition — the weight after ONE iteration is the relative frequency;
  * correspondence: the real `_evaluate_examples()` output of the first iterations is fed to the real `_update` and to
    the Lean model `ProbLogModel.Tasks.LFI.step` (exact rationals of the floats); all weights must agree (1e-9), and
    the reported log-likelihood must be sum(m * log(p_evidence)).
The API default `normalize=False` is exercised as a second stream (known finding, DESIGN §9 C24)."""
import copy
import math
import random
from fractions import Fraction as F

import spine
import tasks_util15 as tasks_util
from lib import close, pmap, rat

MODULE = "ProbLogProofs.Properties.C24"
THEOREMS = [
    "ProbLogProofs.C24.C24_valid",
    "ProbLogProofs.C24.C24_ad_sum",
    "ProbLogProofs.C24.C24_complete_data_mle",
    "ProbLogProofs.C24.C24_complete_data_mle_ad",
]
REFUTATIONS = ["ProbLogProofs.C24.C24_ad_null_choice_refuted"]

MANIFEST = {
    "level": "other",
    "technique": "Lean 4 model of the M-step (_update with its parent aggregation and 1e-15 guard, _normalize_weights) with "
                 "theorems on validity, AD normalisation and the complete-data case; exact correspondence of model and "
                 "real _update on the real expected counts of generated learning problems; monotonicity of the reported "
                 "log-likelihood, validity and the MLE case checked on full EM runs with data sampled from the program",
    "text": "Proved (Lean, all inputs): with 0 <= body count <= parent count every new weight is in [0,1] (C24_valid); "
            "after normalisation the weights of an AD sum to the available probability, or to 0 when all are 0 "
            "(C24_ad_sum); for a fact outside an AD whose parent holds and whose truth value is observed in every "
            "example one _update returns count/total (C24_complete_data_mle); for an AD with k heads the parent count is "
            "k times the number of examples, and after normalisation weight i = available * count_i / sum_j count_j, "
            "which is the relative frequency exactly when some head is true in every example (C24_complete_data_mle_ad); "
            "when some example has no true head the code's answer differs from the relative frequency "
            "(C24_ad_null_choice_refuted, witness replayed on the real code on every run). Monotonicity of the "
            "log-likelihood is NOT proved (no model of the E-step; the abstract EM inequality was not attempted): it is "
            "explored on generated problems.",
    "note": "Level 'other' = partial: clauses 'valid parameters', 'AD sum' and 'complete-data MLE' are theorems about a "
            "model tied to the real _update on every run (real _evaluate_examples output -> both); clause 'log-likelihood "
            "never decreases' is tested only. Not covered: learnable clauses with variables that occur only in the body "
            "(LFI ties the parameter AND the random choice to the head instance, inference has one choice per instance "
            "of all variables: data sampled with the inference semantics is then rejected as inconsistent), "
            "t(_,X) parameter arguments, mixed fixed/learnable ADs, "
            "leak probabilities, logspace evaluator, SDD evaluators (absent), read_examples/file parsing beyond the "
            "replayed witness. Exceptions raised by LFI (e.g. UnknownClause for a rule whose body never holds) are "
            "counted, not judged (C27).",
    "design_ref": "DESIGN.md §6 C24, §9",
}

MAX_ITER = 12


# --------------------------------------------------------------------------- cases
def gen_case(rng):
    P = spine.gen_program(rng, evidence=False, cyclic=rng.random() < 0.15)
    if rng.random() < 0.3:
        # a body-less annotated disjunction with 3-4 heads (mixed fixed / learnable heads are chosen below) plus the program
        nh = rng.choice([3, 4, 4])
        ps = [F(rng.randint(1, 2), 10) for _ in range(nh)]
        P["stmts"] = [s for s in P["stmts"] if s[0] != "ad"]
        for i in range(nh):
            P["preds"]["g%d" % i] = (0, 0)
        P["stmts"].append(("ad", [(ps[i], ("g%d" % i, ())) for i in range(nh)], []))
    stmts = []
    for s in P["stmts"]:
        if s[0] == "ad" and rng.random() < 0.5:
            # exhaustive AD: the probabilities sum to 1 (no example without a head when the body holds)
            hs = list(s[1])
            rest = 1 - sum(F(p) for p, _ in hs[:-1])
            hs[-1] = (rest, hs[-1][1])
            s = ("ad", hs, s[2])
        stmts.append(s)
    P["stmts"] = stmts
    P["queries"] = []
    tun = []

    def head_bound(s):
        # LFI rewrites `t(_)::h(X) :- b(X,Y)` into ONE lfi_fact per instance of the HEAD variables, whereas inference
        # (and spine.reference, which samples the data) has one choice per instance of ALL variables of the clause.
        # The two readings coincide when every body variable occurs in a head; only such clauses are made learnable.
        heads = [s[2]] if s[0] == "prule" else [h for _, h in s[1]]
        body = s[3] if s[0] == "prule" else s[2]
        hv = set(spine.vars_of(heads))
        return all(v in hv for v in spine.vars_of([a for _, a in body]))
    for si, s in enumerate(P["stmts"]):
        if s[0] == "pf" and rng.random() < 0.6:
            tun.append((si, 0))
        elif s[0] == "ad" and head_bound(s) and rng.random() < 0.85:
            his = list(range(len(s[1])))
            if len(his) >= 3 and rng.random() < 0.5:
                # mixed AD: some heads keep their constant probability (two or more fixed heads are possible)
                his = sorted(rng.sample(his, rng.randint(1, len(his) - 1)))
            tun += [(si, hi) for hi in his]
        elif s[0] == "prule" and head_bound(s) and rng.random() < 0.5:
            tun.append((si, 0))
    if not tun:
        cand = [si for si, s in enumerate(P["stmts"]) if s[0] == "pf" or (s[0] in ("ad", "prule") and head_bound(s))]
        if not cand:
            return None
        si = rng.choice(cand)
        tun = [(si, hi) for hi in range(len(P["stmts"][si][1]))] if P["stmts"][si][0] == "ad" else [(si, 0)]
    rules, groups = spine.reference(P)
    atoms = sorted({h for h, b, c in rules})
    base = sorted({h for h, b, c in rules if c is not None})
    der = [a for a in atoms if a not in base] or atoms
    mode = rng.choice(["complete", "complete", "partial", "derived"])
    n = rng.choice([4, 8, 12])
    data, null = [], False
    tun_ads = {si for si, hi in tun if P["stmts"][si][0] == "ad"}
    for _ in range(n):
        chosen = tasks_util.sample_choices(groups, rng)
        m = spine.lfp(rules, P["preds"], chosen)
        if mode == "complete":
            obs = atoms
        elif mode == "partial":
            obs = [a for a in atoms if rng.random() < 0.6] or atoms[:1]
        else:
            obs = [a for a in der if rng.random() < 0.7] or der[:1]
        data.append([(a, a in m) for a in obs])
        # does some learnable AD take its "no head" alternative while its body holds in this world?
        seen = {}
        for h, b, c in rules:
            if c is not None and c[0] == "ad" and c[1] in tun_ads:
                key = (c[1], c[2])
                body_true = all((a in m) if t == "pos" else (a not in m) for t, a in b)
                st = seen.setdefault(key, [body_true, False])
                st[1] = st[1] or (c in chosen)
        if any(bt and not ch for bt, ch in seen.values()):
            null = True
    return {"program": P, "tun": tun, "data": data, "mode": mode, "ad_null_in_data": null,
            "seed": rng.randrange(1 << 30)}


def learn_src(P, tun):
    L = []
    tset = {tuple(t) for t in tun}
    for si, s in enumerate(P["stmts"]):
        def pr(hi, p):
            return "t(_)" if (si, hi) in tset else spine.fr(p)
        if s[0] == "pf":
            L.append("%s::%s." % (pr(0, s[1]), spine.atom_s(s[2])))
        elif s[0] == "prule":
            L.append("%s::%s :- %s." % (pr(0, s[1]), spine.atom_s(s[2]), ", ".join(map(spine.lit_s, s[3]))))
        elif s[0] == "ad":
            hd = "; ".join("%s::%s" % (pr(hi, p), spine.atom_s(h)) for hi, (p, h) in enumerate(s[1]))
            L.append(hd + ("." if not s[2] else " :- %s." % ", ".join(map(spine.lit_s, s[2]))))
        else:
            L.append(spine.stmt_src(s))
    return "\n".join(L)


def mle_expectations(case):
    """{atom text: relative frequency} for the learnable facts / body-less AD heads that are observed in every example
    and have no other definition (complete data for that parameter)."""
    P, tun, data = case["program"], case["tun"], case["data"]
    rules, groups = spine.reference(P)
    ndef = {}
    for h, b, c in rules:
        ndef[h] = ndef.get(h, 0) + 1
    out = {}
    by_stmt = {}
    for si, hi in tun:
        by_stmt.setdefault(si, []).append(hi)
    for si, his in by_stmt.items():
        s = P["stmts"][si]
        if s[0] == "pf":
            heads = [tuple(s[2])]
        elif s[0] == "ad" and not s[2]:
            if sorted(his) != list(range(len(s[1]))):
                # mixed AD (some heads keep a constant probability): the learnable heads share the remaining mass, so the
                # constrained optimum is not the plain relative frequency - the property's MLE clause does not apply
                continue
            heads = [tuple(h) for _, h in s[1]]
            if len(set((h[0], tuple(h[1])) for h in heads)) != len(heads):
                continue
        else:
            continue
        heads = [(h[0], tuple(h[1])) for h in heads]
        ok = all(ndef.get(h, 0) == 1 for h in heads) and all(
            all(any((a[0], tuple(a[1])) == h for a, v in ex) for h in heads) for ex in data)
        if not ok:
            continue
        for h in heads:
            cnt = sum(1 for ex in data for a, v in ex if (a[0], tuple(a[1])) == h and v)
            out[spine.atom_s(h)] = F(cnt, len(data))
    return out


# --------------------------------------------------------------------------- real run (worker side)
def flat_weights(lfi):
    out = {}
    for i, w in enumerate(lfi._weights):
        if isinstance(w, dict):
            for k, v in w.items():
                out[(i, str(k))] = float(v)
        else:
            out[(i, "t")] = float(w)
    return out


def misnamed_queries(lfi, results):
    """Symptom of finding C24-misnamed-lfi-query: the E-step asked for an lfi_body/lfi_par instance whose arguments
    are not those of the learnable fact (Example.compile reads them from a node name that another atom overwrote)."""
    for m, pe, res in results:
        for fact in res:
            if fact.functor in ("lfi_body", "lfi_par"):
                name = lfi.names[int(fact.args[0])]
                fa = tuple(fact.args[2:])
                if len(fa) != len(name.args) or (name.is_ground() and fa != tuple(name.args)):
                    return True
    return False


def ser_results(results):
    """_evaluate_examples() output as plain data: [(m, pEvidence, [(is_body, idx, key text, value)])] in dict order."""
    out = []
    for m, pe, res in results:
        ents = []
        for fact, value in res.items():
            if fact.functor in ("lfi_body", "lfi_par"):
                ents.append((fact.functor == "lfi_body", int(fact.args[0]), str(fact.args[1]), float(value)))
        out.append((int(m), float(pe), ents))
    return out


def run_em(case, normalize=True, max_iter=MAX_ITER, timeout=8):
    """The loop of LFIProblem.run, one recorded iteration at a time."""
    import logging
    from problog.program import PrologString
    from problog.learning.lfi import LFIProblem
    from problog.logic import Term
    logging.getLogger("problog_lfi").setLevel(logging.CRITICAL)
    src = learn_src(case["program"], case["tun"])
    examples = [[(Term(a[0], *[Term(x) for x in a[1]]), bool(v)) for a, v in ex] for ex in case["data"]]
    random.seed(case["seed"])
    rec = {"src": src, "iters": []}

    def body():
        lfi = LFIProblem(PrologString(src), examples, normalize=normalize, propagate_evidence=True,
                         max_iter=10000, min_improv=1e-10)
        lfi.prepare()
        rec["names"] = [str(n.with_probability()) for n in lfi.names]
        rec["adatoms"] = [(float(a), list(idx)) for a, idx in lfi._adatoms]
        rec["adatomc"] = {int(k): [int(x) for x in v] for k, v in lfi._adatomc.items()}
        rec["nexamples"] = len(examples)
        rec["w0"] = flat_weights(lfi)
        given = {(str(a), bool(v)) for ex in examples for a, v in ex}
        rec["inferred_ad_evidence"] = any((str(a), bool(v)) not in given
                                          for ex in lfi._compiled_examples for a, v in zip(ex.atoms, ex.values))
        delta, prev = 1000, -1e10
        while lfi.iteration < max_iter and (delta < 0 or delta > lfi.min_improv):
            lfi.iteration += 1
            before = flat_weights(lfi)
            results = lfi._evaluate_examples()
            if misnamed_queries(lfi, results):
                rec["misnamed"] = True
            ll, cs = lfi._update(results)
            it = {"ll": ll, "used": sum(int(m) for m, _, _ in results), "w": flat_weights(lfi)}
            if len(rec["iters"]) < 2:
                it["results"] = ser_results(results)
                it["before"] = before
            rec["iters"].append(it)
            delta = cs - prev
            prev = cs
    try:
        spine.with_timeout(timeout, body)
    except spine.Timeout:
        rec["error"] = ("Timeout", "")
    except Exception as e:
        rec["error"] = (type(e).__name__, tasks_util.site_of(e))
    return rec


def work(case):
    out = {"cli": run_em(case, True)}
    if any(case["program"]["stmts"][si][0] == "ad" for si, hi in case["tun"]):
        out["nonorm"] = run_em(case, False, max_iter=6)
    return out


# --------------------------------------------------------------------------- judgement
def judge(case, rec, config):
    out = []
    if "error" in rec or not rec["iters"]:
        return out
    base = {"config": config, "ad_null_in_data": bool(case["ad_null_in_data"]),
            "misnamed_lfi_query": bool(rec.get("misnamed")),
            # infer_AD_values added evidence that is not in the data AND examples were rejected before any update
            "inferred_ad_evidence_rejected": bool(rec.get("inferred_ad_evidence")) and rec["iters"][0]["used"] < rec["nexamples"],
            "tunable_ad": any(case["program"]["stmts"][si][0] == "ad" for si, hi in case["tun"]),
            # an annotated disjunction with learnable AND constant-probability heads (the EM update ignores the fixed mass)
            "mixed_ad": any(case["program"]["stmts"][si][0] == "ad" and
                            len({h for s2, h in case["tun"] if s2 == si}) < len(case["program"]["stmts"][si][1])
                            for si, hi in case["tun"])}
    its = rec["iters"]
    for i in range(1, len(its)):
        a, b = its[i - 1]["ll"], its[i]["ll"]
        if b < a - 1e-9 * max(1.0, abs(a)):
            out.append(("log-likelihood reported after iteration %d is %r, after iteration %d it was %r (examples "
                        "evaluated: %d then %d of %d)" % (i + 1, b, i, a, its[i - 1]["used"], its[i]["used"],
                                                          rec["nexamples"]),
                        dict(base, kind="ll-decrease", examples_ignored=(its[i]["used"] != its[i - 1]["used"]))))
            break
    for i, it in enumerate(its):
        badw = [(k, v) for k, v in it["w"].items() if not (-1e-12 <= v <= 1 + 1e-12) or v != v]
        if badw:
            out.append(("weight %s = %r after iteration %d is not a probability" % (
                rec["names"][badw[0][0][0]], badw[0][1], i + 1), dict(base, kind="invalid-parameter")))
            break
    # constant probabilities of the NON-learnable heads of every annotated disjunction that has learnable heads (taken
    # from the program, not from LFI's own bookkeeping): the learned weights plus these must not exceed 1
    fixed_of = {}
    tun_by_stmt = {}
    for si, hi in case["tun"]:
        tun_by_stmt.setdefault(si, set()).add(hi)
    for si, his in tun_by_stmt.items():
        st = case["program"]["stmts"][si]
        if st[0] == "ad":
            fx = sum(float(F(p)) for hi, (p, h) in enumerate(st[1]) if hi not in his)
            for hi, (p, h) in enumerate(st[1]):
                if hi in his:
                    fixed_of[h[0]] = fx
    for i, it in enumerate(its):
        done = False
        for avail, idx in rec["adatoms"]:
            if len(idx) >= 1:
                keys = {k for (j, k) in it["w"] if j in idx}
                fixed = max([fixed_of.get(rec["names"][j].split("(")[0].split("::")[-1], 0.0) for j in idx] + [0.0])
                for k in keys:
                    s = sum(it["w"].get((j, k), 0.0) for j in idx) + fixed
                    if s > 1 + 1e-9:
                        out.append(("the weights of the annotated disjunction %s sum to %r after iteration %d" % (
                            [rec["names"][j] for j in idx], s, i + 1),
                            dict(base, kind="ad-sum", fixed_heads=fixed > 0, learnable_heads=min(len(idx), 2))))
                        done = True
                        break
            if done:
                break
        if done:
            break
    exp = mle_expectations(case)
    if exp:
        w1 = its[0]["w"]
        for i, name in enumerate(rec["names"]):
            if name in exp:
                got = w1.get((i, "t"))
                if got is None or not close(got, exp[name]):
                    out.append(("%s is observed in every example (%s true), one iteration returns %r instead of the "
                                "relative frequency %r" % (name, exp[name], got, float(exp[name])),
                                dict(base, kind="mle")))
                    break
    return out


def same(a, b):
    return a["kind"] == b["kind"] and a["config"] == b["config"]


# --------------------------------------------------------------------------- model correspondence
def model_line(rec, it, normalize):
    keys = {}

    def kid(k):
        if k not in keys:
            keys[k] = len(keys)
        return keys[k]
    adc = " ".join("(%d (%s))" % (i, " ".join(str(o) for o in os_)) for i, os_ in sorted(rec["adatomc"].items()))
    ads = " ".join("(%s (%s))" % (rat(F(a)), " ".join(map(str, idx))) for a, idx in rec["adatoms"])
    ws = " ".join("(%d %d %s)" % (i, kid(k), rat(F(v))) for (i, k), v in it["before"].items())
    rs = " ".join("(%d %s (%s))" % (m, rat(F(pe)), " ".join(
        "(%s %d %d %s)" % ("b" if b else "p", i, kid(k), rat(F(v))) for b, i, k, v in ents)) for m, pe, ents in it["results"])
    return "STEP (%s) (%s) %s (%s) (%s)" % (adc, ads, "t" if normalize else "f", ws, rs), keys


def parse_model(out, keys):
    import re
    if out.startswith("ERR:"):
        return {"error": out[4:]}
    inv = {v: k for k, v in keys.items()}
    m = re.match(r"\(new(.*)\) \(ws(.*)\)$", out)
    if not m:
        from lib import Infra
        raise Infra("bad C24 driver output: " + out[:200])
    ws = {(int(a), inv[int(b)]): F(c) for a, b, c in re.findall(r"\((-?\d+) (\d+) (\S+)\)", m.group(2))}
    return {"ws": ws}


def correspond(rec, it, model):
    if "error" in model:
        return "model raises %s, the real _update returned" % model["error"]
    real = it["w"]
    for k, v in real.items():
        mv = model["ws"].get(k)
        if mv is None or not close(mv, v):
            return "weight %s: real %r, model %s" % (k, v, None if mv is None else float(mv))
    for k in model["ws"]:
        if k[0] >= 0 and k not in real:
            return "model has weight %s, the real table has not" % (k,)
    ll = 0.0
    for m, pe, ents in it["results"]:
        if pe > 0:
            ll += m * math.log(pe)
    if not close(ll, it["ll"]):
        return "reported log-likelihood %r is not sum(m*log(p_evidence)) = %r" % (it["ll"], ll)
    return None


WITNESS = {   # the witness of C24_ad_null_choice_refuted: `t(_)::a; t(_)::b.` with 3 x a, 2 x b, 5 x neither
    "program": {"consts": ["a"], "preds": {"a": (0, 0), "b": (0, 0)},
                "stmts": [("ad", [(F(3, 10), ("a", ())), (F(2, 10), ("b", ()))], [])], "queries": [], "evidence": []},
    "tun": [(0, 0), (0, 1)],
    "data": ([[(("a", ()), True), (("b", ()), False)]] * 3 + [[(("a", ()), False), (("b", ()), True)]] * 2 +
             [[(("a", ()), False), (("b", ()), False)]] * 5),
    "mode": "complete", "ad_null_in_data": True, "seed": 1,
}


def run(ctx):
    ctx.rule = ("typed random programs whose probabilistic facts / AD heads (all heads of an AD, half of the ADs "
                "exhaustive) / probabilistic rules are made learnable with t(_); 4-15 interpretations sampled from the "
                "program's own distribution, observed completely, partially (60% of the atoms) or on derived atoms only; "
                "a case = one EM run in the CLI configuration (+ one with normalize=False when an AD is learnable); "
                "non-trivial = at least 2 iterations and at least one weight strictly between 0 and 1 at the end")
    ctx.proof_phase(MODULE, THEOREMS, refutations=REFUTATIONS)
    drv = ctx.driver("Drivers.C24")
    if drv is None:
        return ctx.finish("other")
    rng = ctx.sub_rng("cases")
    if ctx.replay_in:
        import json
        c = json.load(open(ctx.replay_in))["replay"]["case"]
        c["program"] = tasks_util.load_program(c["program"])
        c["tun"] = [tuple(t) for t in c["tun"]]
        c["data"] = [[((a[0], tuple(a[1])), v) for a, v in ex] for ex in c["data"]]
        cases = [c]
    else:
        cases = []
        while len(cases) < ctx.budget(18, 1000):
            c = gen_case(rng)
            if c is not None:
                cases.append(c)
    results = pmap(work, cases, chunksize=1)
    if not ctx.replay_in:
        # the witness of the refutation theorem, replayed on the real code (no competition for the time limit)
        cases.append(copy.deepcopy(WITNESS))
        results.append({"cli": run_em(WITNESS, True, timeout=120), "nonorm": run_em(WITNESS, False, max_iter=6, timeout=120)})
    # ---- model correspondence (both configurations, first two iterations)
    lines, meta = [], []
    for ci, res in enumerate(results):
        for config, rec in res.items():
            if "names" not in rec:
                continue
            for it in rec["iters"][:2]:
                if "results" in it:
                    line, keys = model_line(rec, it, config == "cli")
                    lines.append(line)
                    meta.append((ci, config, it, keys))
    outs = drv.run(lines)
    ndiff, first = 0, None
    for (ci, config, it, keys), out in zip(meta, outs):
        d = correspond(results[ci][config], it, parse_model(out, keys))
        if d is not None:
            ndiff += 1
            if first is None:
                first = d
            ctx.disagree("LFI._update model vs real", "%s | %s | program: %s" % (
                config, d, results[ci][config]["src"].replace("\n", " ")))
    ctx.obligation("correspondence: Lean M-step model = real _update/_normalize_weights on %d real E-step outputs" % len(lines),
                   ndiff == 0 and (len(lines) > 0 or bool(ctx.replay_in)), first or "")
    # ---- property
    nshrunk = 0
    witness_seen = False
    for ci, (case, res) in enumerate(zip(cases, results)):
        rec = res["cli"]
        src = rec["src"]
        if "error" in rec:
            ctx.count("lfi raised %s" % rec["error"][0])
            ctx.case(src, nontrivial=False)
            if ci == len(cases) - 1 and not ctx.replay_in:
                from lib import Infra
                raise Infra("the witness run did not finish: %s" % (rec["error"],))
            continue
        its = rec["iters"]
        nontrivial = len(its) >= 2 and any(0 < v < 1 for v in its[-1]["w"].values())
        ctx.case(src + repr(case["data"]), nontrivial=nontrivial, n=len(res))
        ctx.count("observations:" + case["mode"])
        ctx.count("iterations<=%d" % (1 << max(0, len(its) - 1).bit_length()))
        if len(its) >= MAX_ITER:
            ctx.count("stopped at the iteration cap")
        if any(it["used"] < rec["nexamples"] for it in its):
            ctx.count("some examples ignored as inconsistent during EM")
        if case["ad_null_in_data"]:
            ctx.count("learnable AD with a no-head example")
        if rec.get("misnamed"):
            ctx.count("E-step queried a misnamed lfi_body/lfi_par")
        if rec.get("inferred_ad_evidence") and its and its[0]["used"] < rec["nexamples"]:
            ctx.count("examples rejected at the first E-step after infer_AD_values added evidence")
        if mle_expectations(case):
            ctx.count("has completely observed parameters (MLE clause applies)")
        if len(ctx.samples) < 3:
            ctx.sample({"src": src, "examples": len(case["data"]), "mode": case["mode"],
                        "ll": [it["ll"] for it in its[:6]], "weights": {rec["names"][i]: w for (i, k), w in its[-1]["w"].items()}})
        for config in res:
            seen = []
            for what, sig in judge(case, res[config], config):
                if any(same(sig, s) for s in seen):
                    continue
                seen.append(sig)
                if ci == len(cases) - 1 and not ctx.replay_in and config == "cli" and sig["kind"] == "mle":
                    witness_seen = True
                small = case
                if nshrunk < 2 and ctx.known_match(sig) is None:
                    small = shrink_case(case, config, sig)
                    nshrunk += 1
                    for w2, s2 in judge(small, run_em(small, config == "cli"), config):
                        if same(s2, sig):
                            what = w2
                ctx.fail("[%s] %s | program: %s | %d examples" % (
                    "problog lfi defaults" if config == "cli" else "normalize=False", what,
                    learn_src(small["program"], small["tun"]).replace("\n", " "), len(small["data"])),
                    {"case": small, "config": config}, sig)
    if not ctx.replay_in:
        ctx.obligation("refutation witness of C24_ad_null_choice_refuted replays on the real code "
                       "(t(_)::a; t(_)::b. with 3 x a, 2 x b, 5 x neither -> 0.6 / 0.4)", witness_seen,
                       "the real code returned the relative frequencies: the refutation theorem no longer describes it")
    return ctx.finish("other", MANIFEST["text"])


def shrink_case(case, config, sig):
    """Drop examples while the same kind of failure persists (statements are kept: the remaining examples must stay
    possible interpretations of the program)."""
    def fails(c):
        try:
            return any(same(s, sig) and s.get("ad_null_in_data") == sig.get("ad_null_in_data")
                       for _, s in judge(c, run_em(c, config == "cli"), config))
        except Exception:
            return False
    cur = copy.deepcopy(case)
    i = len(cur["data"]) - 1
    while i >= 0 and len(cur["data"]) > 1:
        c = copy.deepcopy(cur)
        del c["data"][i]
        if fails(c):
            cur = c
        i -= 1
    return cur
