"""C17 — the parser is total and printing round-trips.

Lean side: `ProbLogModel.Printer` (model of Term.__repr__ & co.), `ProbLogModel.Parser` (collapse / label_tokens / fold /
_build_operator_free and the ExtendedPrologFactory builders, as written), `ProbLogModel.Lexer` (reference lexer),
`Generated/OpTable.lean` regenerated from parser.py on every run (harness/py2lean_ops).
Ties that run on every check:
  (i)   real printer vs Printer model on generated ASTs (exact strings);
  (ii)  round trip on the real code (oracle independent of Lean): str(t) parsed again must give a term equal to t;
  (ii') real tokenizer vs reference lexer on the printed strings, model round trip vs real round trip;
  (iii) real collapse (label_tokens, fold, factory) vs the model on the token lists of printed strings, of every
        statement of test/*.pl and test/parser/*.pl, and of token-level mutants of those;
  (iv)  totality: token-level fuzzing of PrologString — nothing but ProbLogError subclasses may escape.
"""
import glob
import json
import os
import warnings

import lib
from lib import Infra, q

MODULE = "ProbLogProofs.Properties.C17"
THEOREMS = [
    "ProbLogProofs.C17.C17_roundtrip_partial",
    "ProbLogProofs.C17.C17_fold_total_partial",
    "ProbLogProofs.C17.C17_roundtrip_refuted_or_operand",
    "ProbLogProofs.C17.C17_roundtrip_refuted_prefix_operand",
    "ProbLogProofs.C17.C17_roundtrip_refuted_left_nested_and",
    "ProbLogProofs.C17.C17_roundtrip_refuted_symbol_glue",
    "ProbLogProofs.C17.C17_roundtrip_refuted_negative_number",
    "ProbLogProofs.C17.C17_roundtrip_refuted_mixed_associativity",
    "ProbLogProofs.C17.C17_roundtrip_refuted_high_priority_argument",
    "ProbLogProofs.C17.C17_roundtrip_refuted_nested_clause",
    "ProbLogProofs.C17.C17_roundtrip_refuted_nested_not",
    "ProbLogProofs.C17.C17_fold_total_refuted_sharp",
    "ProbLogProofs.C17.C17_fold_total_refuted_empty_head",
    "ProbLogProofs.C17.C17_fold_total_refuted_semicolon_head",
]

MANIFEST = {
    "level": "other",
    "technique": "Lean 4 theorems about hand-written models of logic.py's printer and parser.py's collapse/label/fold "
                 "(operator table regenerated from parser.py each run) + exact correspondence of printer, lexer and "
                 "parser models with the implementation + independent round-trip oracle and totality fuzzing on the real code",
    "text": "Proved in Lean on the model: the modelled collapse/label_tokens/fold read the token list of every "
            "operator-free term (variables, numbers, strings, plain and quoted atoms, [], compound terms, lists with "
            "tails, arbitrarily nested) back to that term (C17_roundtrip_partial; the driver checks that the token list "
            "is the tokenization of the printed text); 9 refutations with witnesses for the shapes where the "
            "printer/parser pair does not round-trip; for every token list without '<' the modelled "
            "collapse/label_tokens/fold reach no internal (non-ProbLog) exception except at the two raise sites of "
            "_build_clause (C17_fold_total_partial), 3 refutation witnesses for the full totality statement. Every run ties the models to the code (exact "
            "strings / token lists / parse results on generated ASTs, all corpus statements and their mutants), runs "
            "an independent print-parse-compare oracle on ASTs over the full operator table, and fuzzes PrologString "
            "for exceptions that are not ProbLogError subclasses.",
    "note": "Level 'other': the round-trip theorem covers the operator-free class only; operators, clauses, "
            "probabilities and ADs are covered by the correspondence and the round-trip oracle (testing), not by proof. "
            "Totality of the tokenizer and of program.py's factory is exploration (fuzzing), the theorem is about the "
            "modelled collapse/label/fold. The models are hand-written and tied to the code only on the inputs run. "
            "int()/float() conversions are not modelled. Trusted: Lean kernel, standard axioms, harness, driver glue.",
    "design_ref": "DESIGN.md §6 C17",
}


def _parser():
    from problog.parser import PrologParser
    from problog.program import ExtendedPrologFactory
    return PrologParser(ExtendedPrologFactory())


def norm_msg(m):
    for p in ("Unexpected character", "Unmatched character"):
        if m.startswith(p):
            return p
    return m


def real_collapse(string, toks):
    """Outcome of parser.collapse on one statement, in the vocabulary of the model driver."""
    import c17_util as U
    from problog.parser import ParseError
    from problog.errors import GroundingError, ProbLogError
    P = _parser()
    try:
        r = P.collapse(string, toks)
    except ParseError as e:
        return "parse " + q(norm_msg(e.base_message)), None
    except GroundingError:
        return "grounding", None
    except ProbLogError as e:
        return "problog " + type(e).__name__, None
    except RecursionError:
        return "recursion", None
    except Exception as e:
        f, fn, line = U.site_of(e)
        kind = "internal" if f == "parser.py" else "crash"
        return "%s %s" % (kind, type(e).__name__), (type(e).__name__, "%s:%s: %s" % (f, fn, line))
    try:
        return "ok " + U.dump(r), None
    except U.Unrepresentable:
        return "unrep", None


def same_outcome(model, real):
    """Compare a model driver line with the implementation's outcome. Returns 'same' | 'skip' | 'fixed' | 'diff'."""
    import c17_util as U
    if model.startswith("unsupported"):
        return "skip"
    if real == "recursion":
        return "skip"
    TAG = " [caught IndexError]"
    if TAG in model:
        # an IndexError of a crash site inside brackets, swallowed by collapse's `except IndexError`
        model = model.replace(TAG, "")
        if model != real:
            return "fixed" if not (real.startswith("internal") or real.startswith("crash")) else "diff"
    if model.startswith("ok ") and real.startswith("ok "):
        return "same" if U.canon_floats(model) == U.canon_floats(real) else "diff"
    if model.startswith("grounding") and real == "grounding":
        return "same"
    if model.startswith("internal ") or model.startswith("crash "):
        model = model.split(":")[0]  # the model names the raise site after the exception type
        if real == model:
            return "same"
        # the model predicts a crash at a site for which a fix is proposed (repo_patches/C17_*): an implementation
        # that does not crash there is better than the model, not a broken correspondence
        if real.startswith("parse ") or real == "grounding" or real.startswith("ok "):
            return "fixed"
        return "diff"
    if real == 'parse "Empty expression"':
        # this message exists only with repo_patches/C17_empty_parens applied: `()` is rejected as soon as it is
        # folded instead of becoming a None operand (the model follows the unpatched source and keeps None)
        return "fixed"
    return "same" if model == real else "diff"


# --------------------------------------------------------------------------------------------- known defect shapes
SYMCH = set("+-*/\\^<>=~:.?@#&$")


def _lex_first(text, lexemes):
    """First symbolic lexeme the tokenizer would take from `text` (match order of the extracted table)."""
    for lx in lexemes:
        if text.startswith(lx):
            return lx
    return None


class Shapes(object):
    """Detector of the AST shapes on which the printer/parser pair is known not to round-trip (known/C17.json).
    Order of `found` = order of discovery in a fixed traversal, so the first entry is a stable signature."""

    def __init__(self, table):
        self.lexemes = [e["lexeme"] for e in table["entries"]]
        self.found = []

    def add(self, s):
        if s not in self.found:
            self.found.append(s)

    def run(self, t):
        from problog.logic import Clause, AnnotatedDisjunction
        self.found = []
        if type(t) is Clause:
            if getattr(t.head, "functor", None) == "_directive" and self.first_char(t.body) in SYMCH:
                self.add("prefix-operator-operand")  # `:- -1 = X`: "Ambiguous token role"
            self.top(t.head, 1199)
            self.top(t.body, 1199)
        elif type(t) is AnnotatedDisjunction:
            for h in t.heads:
                self.top(h, 1099)
            if t.body is not None:
                self.top(t.body, 1199)
        else:
            self.top(t, 1200)
        return self.found

    def prio(self, t):
        p = getattr(t, "op_priority", None)
        return p if p is not None and getattr(t, "op_spec", None) is not None else 0

    def top(self, t, maxprio):
        """t is printed with str(t) (class __repr__ chain) in a context that accepts priority <= maxprio."""
        from problog.logic import Term, And, Or, Not, Clause, AnnotatedDisjunction
        ty = type(t)
        if t is None:
            self.add("none-child")
        elif ty is And:
            if type(t.op1) is And:
                self.add("left-nested-and-or")
            if maxprio < 1000:
                self.add("high-priority-operand")
            # And.__repr__ parenthesises an Or operand
            self.top(t.op1, 1200 if type(t.op1) is Or else 999)
            self.top(t.op2, 1200 if type(t.op2) is Or else 1000)
        elif ty is Or:
            if type(t.op1) is Or:
                self.add("left-nested-and-or")
            if maxprio < 1100:
                self.add("high-priority-operand")
            self.top(t.op1, 1099)
            self.top(t.op2, 1100)
        elif ty is Not:
            c = t.child
            if type(c) in (And, Or):
                self.top(c, 1200)
            else:
                if self.first_char(c) in SYMCH and type(c) is not Not:
                    self.add("prefix-operator-operand")  # `\+ -1 = X`: "Ambiguous token role"
                self.top(c, 900)
        elif ty in (Clause, AnnotatedDisjunction):
            self.add("nested-clause")
        elif isinstance(t, Term):
            if self.prio(t) > maxprio:
                self.add("high-priority-operand")
            self.loop(t, 1200)

    def starts_bracket(self, t):
        from problog.logic import Term, And
        if type(t) is And:
            return True
        if isinstance(t, Term) and t.functor == "." and t.arity == 2:
            return True
        if isinstance(t, Term) and getattr(t, "op_spec", None) is not None and t.arity == 2:
            a = t.args[0]
            if self.prio(a) > self.prio(t) or (self.prio(a) == self.prio(t) and t.op_spec != "yfx" and self.prio(a) > 0):
                return True
            return self.starts_bracket(a)
        return False

    def first_char(self, t):
        from problog.logic import Term
        try:
            s = str(t)
        except Exception:
            return ""
        return s[:1]

    def loop(self, t, maxprio):
        """t is printed by the loop of Term.__repr__."""
        from problog.logic import Term, Var, Constant, And, Or, Not, Clause, AnnotatedDisjunction
        ty = type(t)
        if t is None:
            self.add("none-child")
            return
        if ty is And:
            cur = t
            while type(cur) is And:
                self.elem(cur.op1, 999)
                cur = cur.op2
            self.elem(cur, 999)
            return
        if ty is Or:
            self.add("or-inside-term")
            self.loop(t.op1, 1099)
            self.loop(t.op2, 1100)
            return
        if ty is Not:
            if t.functor == "not":
                self.add("not-inside-term")  # printed `not(x)`: the compound term not/1
            self.loop(t.child, 1200)
            return
        if ty in (Clause, AnnotatedDisjunction):
            self.add("nested-clause")
            return
        if ty in (Var, Constant):
            return
        if not isinstance(t, Term):
            self.add("foreign-object")
            return
        if t.probability is not None:
            if t.op_spec is not None or (t.functor == "." and t.arity == 2):
                self.add("probability-not-printed")
            self.top(t.probability, 999)
        if t.functor == "." and t.arity == 2:
            cur = t
            while isinstance(cur, Term) and cur.functor == "." and cur.arity == 2:
                self.arg(cur.args[0])
                cur = cur.args[1]
            if not (type(cur) is Term and cur.functor == "[]" and cur.arity == 0):
                self.arg(cur)
            return
        if t.op_spec is not None:
            p = t.op_priority
            sym = not ("a" <= str(t.functor).strip("'")[:1] <= "z")
            opname = str(t.functor).strip("'")
            if len(t.op_spec) == 2:
                a = t.args[0]
                if sym:
                    if getattr(a, "op_spec", None) is not None or self.starts_bracket(a) or self.first_char(a) in SYMCH \
                            or self.first_char(a) in "([":
                        self.add("prefix-operator-operand")
                    if type(a) is Constant and type(a.functor) in (int, float) and opname == "-":
                        self.add("minus-number-not-in-parser-image")
                self.loop(a, p)
                return
            a, b = t.args[0], t.args[1]
            for side, x in (("l", a), ("r", b)):
                if type(x) is Constant and type(x.functor) in (int, float) and str(x).startswith("-"):
                    if p <= 200 and (side == "l" or t.op_spec in ("xfx", "yfx")):
                        self.add("negative-number-operand")
            xa = getattr(a, "op_spec", None)
            if xa is not None and a.op_priority == p and t.op_spec == "yfx" and xa != "yfx":
                self.add("mixed-associativity")
            if sym:
                rtxt = ""
                try:
                    rtxt = str(b) if not (self.prio(b) > p or (self.prio(b) == p and t.op_spec != "xfy" and self.prio(b) > 0)) else "("
                except Exception:
                    pass
                if rtxt[:1] in SYMCH and _lex_first(opname + rtxt, self.lexemes) != opname:
                    self.add("symbol-glue")
                ltxt = ""
                try:
                    ltxt = str(a)
                except Exception:
                    pass
                if ltxt[-1:] in SYMCH:
                    self.add("symbol-glue")
            self.loop(a, p)
            self.loop(b, p)
            return
        for a in t.args:
            self.arg(a)

    def arg(self, a):
        """argument of a compound term / list element: priority 999 is not enforced by the printer."""
        if self.prio(a) >= 1000:
            self.add("high-priority-operand")
        self.loop(a, 999)

    def elem(self, a, maxprio):
        from problog.logic import Or
        if type(a) is Or:  # parenthesised by the And branch
            if type(a.op1) is Or:
                self.add("left-nested-and-or")
            self.loop(a.op1, 1099)
            self.loop(a.op2, 1100)
            self.found = [s for s in self.found]  # no or-inside-term for this node
            return
        if self.prio(a) >= 1000:
            self.add("high-priority-operand")
        self.loop(a, maxprio)


# --------------------------------------------------------------------------------------------- round trip oracle
def real_roundtrip(t):
    """('ok'|'diff'|'count'|'error', detail): print t, parse the text, compare (operator annotations ignored)."""
    import c17_util as U
    from problog.errors import ProbLogError
    s = str(t)
    try:
        r = _parser().parseString(s + ".")
    except ProbLogError as e:
        return "error", "%s: %s" % (type(e).__name__, getattr(e, "base_message", str(e))), s, None
    except RecursionError:
        return "skip", "recursion", s, None
    except Exception as e:
        f, fn, line = U.site_of(e)
        return "crash", "%s at %s:%s: %s" % (type(e).__name__, f, fn, line), s, None
    if len(r) != 1:
        return "count", "%d statements" % len(r), s, None
    try:
        d = U.dump(r[0])
    except U.Unrepresentable as e:
        return "diff", "reparsed object not representable: %s" % e, s, None
    if U.strip_ops(d) == U.strip_ops(U.dump(t)) and r[0] == t:
        return "ok", "", s, d
    return "diff", "parses to %s" % str(r[0]), s, d


def subterms(t):
    """Candidate simplifications of an AST for shrinking: every proper sub-AST, and t with one child replaced."""
    from problog.logic import Term, And, Or, Not, Clause, AnnotatedDisjunction
    out = []
    if t is None or not isinstance(t, Term):
        return out
    ty = type(t)
    kids = list(t.heads) + [t.body] if ty is AnnotatedDisjunction else list(t.args)
    for k in kids:
        if isinstance(k, Term):
            out.append(k)
    leaf = Term("a")

    def rebuild(i, new):
        if ty is AnnotatedDisjunction:
            hs = list(t.heads)
            if i < len(hs):
                hs[i] = new
                return AnnotatedDisjunction(hs, t.body)
            return AnnotatedDisjunction(hs, new)
        args = list(t.args)
        args[i] = new
        if ty in (And, Or, Clause):
            return ty(*args)
        if ty is Not:
            return Not(t.functor, args[0])
        return ty(t.functor, *args, p=t.probability, priority=t.op_priority, opspec=t.op_spec) if ty is Term else t

    for i, k in enumerate(kids):
        if isinstance(k, Term) and (k.arity > 0 or type(k) is not Term):
            if not (ty is Clause and i == 0) and not (ty is AnnotatedDisjunction and i < len(t.heads)):
                out.append(rebuild(i, leaf))
        for sk in subterms(k)[:8]:
            try:
                out.append(rebuild(i, sk))
            except Exception:
                pass
    return out


def shrink_ast(t, pred, limit=400):
    cur = t
    n = 0
    changed = True
    while changed and n < limit:
        changed = False
        for c in subterms(cur):
            n += 1
            if n >= limit:
                break
            try:
                if len(str(c)) < len(str(cur)) and pred(c):
                    cur = c
                    changed = True
                    break
            except Exception:
                continue
    return cur


# --------------------------------------------------------------------------------------------- corpus and mutants
POOL = ["(", ")", "[", "]", ",", "|", ":-", "::", ";", "\\+", "not", "-", "+", "*", "<", ">", "=", "is", "X", "_", "a",
        "f", "1", "0.5", '"s"', "'q'", "<-", "~", "&", "->", "**", "^", ":", "avg", "@", "$", "{", "}", "`", "'", '"',
        "/*", "%", "0x1F", "1e5", ".(", "=..", "\\", "\\\\", "~=", "-->", "\\=@=", "mod", "as", "!", "?", "#", "//",
        "()", "[]", "<X>", "avg<X>", "- ()", "':'(a)", ";(a)", "\\+ 1", "2 ** -1"]


def corpus_statements(P):
    """[(file, source string, [token strings of one statement])] for every statement of the corpus that tokenizes."""
    from problog.errors import ProbLogError
    res = []
    files = sorted(glob.glob(os.path.join(lib.REPO, "test", "*.pl"))) + sorted(
        glob.glob(os.path.join(lib.REPO, "test", "parser", "*.pl")))
    for f in files:
        try:
            s = open(f, encoding="utf-8").read()
        except Exception:
            continue
        try:
            toks = list(P._tokenize(s))
        except ProbLogError:
            continue
        cur = []
        for t in toks:
            if t.special == 2:  # SPECIAL_END
                if cur:
                    # a functor token must be followed by its bracket without a space: glue it to the next token
                    res.append((os.path.basename(f), [x.string + ("\x00" if x.functor else "") for x in cur]))
                cur = []
            else:
                cur.append(t)
    return res


GENTLE = ["a", "b", "X", "Y", "_", "1", "0.5", "f", "[]", "'q'", '"s"', "-", "+", "*", "=", "is", "\\+", ",", ";", "(", ")",
          "[", "]", "|", "::", ":-", "-1", "2.5e3", "not", "mod", "^", ">=", "=..", "<", ">", "X1", "p(X)", "[a|T]", "(a;b)",
          "(a,b)", "- 1", "\\+ a", "f(", ")", "0.3::", "a:b", "~", "&"]


def mutate(rng, toks, other):
    t = list(toks)
    pool = GENTLE if rng.random() < 0.7 else POOL
    for _ in range(rng.choice([1, 1, 1, 1, 2, 2, 3])):
        if not t:
            t = [rng.choice(pool)]
            continue
        k = rng.random()
        i = rng.randrange(len(t))
        if k < 0.18:
            del t[i]
        elif k < 0.3:
            t.insert(i, t[i])
        elif k < 0.42 and i + 1 < len(t):
            t[i], t[i + 1] = t[i + 1], t[i]
        elif k < 0.7:
            t[i] = rng.choice(pool)
        elif k < 0.85:
            t.insert(i, rng.choice(pool))
        elif k < 0.95 and other:
            j = rng.randrange(len(other))
            t[i:i] = other[j:j + rng.randrange(1, 5)]
        else:
            t = t[:i]
    return t


def join_tokens(toks):
    """Token strings separated by spaces; a trailing NUL marks "no space after" (functor followed by its bracket)."""
    return " ".join(toks).replace("\x00 ", "").replace("\x00", "")


def run(ctx):
    import c17_util as U
    import py2lean_ops
    warnings.simplefilter("ignore")
    ctx.rule = ("a case = one generated AST (print + round trip + correspondence), one corpus/mutant statement "
                "(collapse correspondence) or one fuzzed program text (totality); distinct = distinct texts; "
                "non-trivial = AST of depth >= 2 / statement of >= 3 tokens")
    # ---- operator table: regenerated from the source of this run
    try:
        table, changed = py2lean_ops.regenerate(lib.REPO, lib.LEAN)
    except py2lean_ops.ExtractError as e:
        raise Infra("operator table extraction failed: %s" % e)
    ctx.obligation("operator table extracted from parser.py (%d symbolic rows, %d word operators)%s" % (
        len(table["entries"]), len(table["string_operators"]), "; regenerated" if changed else ""), True)
    ops = U.OpTable(table)
    ctx.proof_phase(MODULE, THEOREMS)
    drv = ctx.driver("Drivers.C17")
    if drv is None:
        return ctx.finish("other")
    specials = U.special_names()
    P = _parser()
    shapes = Shapes(table)

    if ctx.replay_in:
        return replay(ctx, drv, shapes, specials)

    # =============================================================== (i)+(ii): ASTs
    n_safe = ctx.budget(9000, 120000)
    n_unsafe = ctx.budget(1500, 30000)
    rng = ctx.sub_rng("ast")
    asts = []
    n_plain = ctx.budget(1500, 20000)
    plain_dumps = set()
    for i in range(n_safe + n_unsafe + n_plain):
        g = U.Gen(rng, ops, safe=i < n_safe)
        if i >= n_safe + n_unsafe:
            t = g.plain(rng.choice([1, 2, 3, 4, 5]))
            plain_dumps.add(U.dump(t))
            asts.append((t, True))
            continue
        t = g.statement(rng.choice([1, 2, 2, 3, 3, 4]))
        if i < n_safe:
            # known-defect filter: the main stream avoids the shapes listed in known/C17.json, so that any
            # failure in it is a new violation; the second stream exercises every shape
            tries = 0
            while shapes.run(t) and tries < 50:
                t = g.statement(rng.choice([1, 2, 2, 3]))
                tries += 1
                ctx.count("ast:rejected-known-shape")
            if shapes.run(t):
                continue
        asts.append((t, i < n_safe))
    dumps, lines_print, lines_rt = [], [], []
    keep = []
    for t, safe in asts:
        try:
            d = U.dump(t)
        except U.Unrepresentable:
            continue
        keep.append((t, safe, d))
    m_cls = drv.run(["cls " + d for _, _, d in keep])
    first_cls_diff = None
    n_in = 0
    for (t, safe, d), mc in zip(keep, m_cls):
        if mc.startswith("in"):
            n_in += 1
            ctx.count("ast:in-class-of-roundtrip-theorem")
            if mc != "in same" and first_cls_diff is None:
                first_cls_diff = (d[:300], mc)
        elif d in plain_dumps and first_cls_diff is None:
            first_cls_diff = (d[:300], "an operator-free term is not in the class: " + mc)
    if first_cls_diff:
        ctx.disagree("token list of C17_roundtrip_partial vs tokens of the printed text", "%s: %s" % first_cls_diff)
    ctx.obligation("theorem tie: for %d generated terms of the class, S.toks = tokenize(print t) and collapse gives t" % n_in,
                   first_cls_diff is None and n_in > 100)
    m_print = drv.run(["print " + d for _, _, d in keep])
    m_rt = drv.run(["rt " + d for _, _, d in keep])
    first_print_diff = None
    first_rt_diff = None
    first_lex_diff = None
    rt_fail = {}  # signature shape -> (text, ast)
    n_rt_ok = 0
    lex_lines, lex_real = [], []
    for (t, safe, d), mp, mr in zip(keep, m_print, m_rt):
        s = str(t)
        ctx.case(s, nontrivial=len(d) > 60)
        ctx.count("ast:" + ("safe" if safe else "any-shape"))
        if mp != q(s) and first_print_diff is None:
            first_print_diff = (d, s, mp)
        # real tokenizer vs reference lexer
        try:
            rt_toks = list(P._tokenize(s + "."))
            lex_real.append("ok (" + " ".join(U.tok_text(x, specials) for x in rt_toks) + ")")
        except Exception as e:
            lex_real.append("error " + type(e).__name__)
        lex_lines.append("lex " + q(s + "."))
        # independent oracle
        kind, detail, text, rd = real_roundtrip(t)
        found = shapes.run(t)
        if kind == "ok":
            n_rt_ok += 1
        elif kind == "skip":
            ctx.count("roundtrip:skipped-recursion")
        else:
            sig = found[0] if found else "none"
            ctx.count("roundtrip-failure:" + sig)
            if sig not in rt_fail or len(text) < len(rt_fail[sig][0]):
                rt_fail[sig] = (text, t, kind, detail)
        # model round trip vs real round trip
        if mr.startswith("unsupported"):
            ctx.count("model:unsupported")
        else:
            model_same = mr.startswith("same ")
            agree = (model_same == (kind == "ok")) if kind != "skip" else True
            if not model_same and kind not in ("ok", "skip") and rd is not None and mr.startswith("diff "):
                agree = U.canon_floats(mr[5:]) == rd
            if not agree and first_rt_diff is None:
                first_rt_diff = (s, mr[:300], kind, detail[:200])
    m_lex = drv.run(lex_lines)
    for ml, rl, ln in zip(m_lex, lex_real, lex_lines):
        if ml.startswith("unsupported"):
            continue
        if rl.startswith("error"):
            if not ml.startswith("parse"):
                first_lex_diff = first_lex_diff or (ln, ml[:200], rl[:200])
        elif ml != rl:
            first_lex_diff = first_lex_diff or (ln, ml[:300], rl[:300])
    # every listed finding pins a witness (source text): replay it first-hand, report a finding that stopped failing
    for f in ctx.known.get("findings", []):
        if f.get("property") != "C17" or f.get("match", {}).get("kind") != "roundtrip":
            continue
        try:
            wt = _parser().parseString(f["witness"])[0]
        except Exception as e:
            ctx.notes.append("STALE-FINDING %s: witness does not parse any more (%s)" % (f["id"], type(e).__name__))
            print("STALE-FINDING: property=C17 %s (witness does not parse)" % f["id"])
            continue
        kind, detail, text, _ = real_roundtrip(wt)
        found = shapes.run(wt)
        ctx.case(f["witness"])
        ctx.count("ast:finding-witness")
        if kind == "ok":
            ctx.notes.append("STALE-FINDING %s: witness `%s` round-trips now" % (f["id"], f["witness"]))
            print("STALE-FINDING: property=C17 %s (witness round-trips now)" % f["id"])
        else:
            sig = found[0] if found else "none"
            ctx.fail("round trip fails (%s): `%s` printed `%s` %s [shape: %s]" % (kind, f["witness"], text, detail, sig),
                     {"kind": "roundtrip", "ast": U.dump(wt), "text": text}, {"kind": "roundtrip", "shape": sig})
    ctx.sample({"ast": keep[0][2][:200], "printed": str(keep[0][0])})
    ctx.sample({"ast": keep[1][2][:200], "printed": str(keep[1][0])})
    ctx.extra["roundtrip_ok"] = n_rt_ok
    ctx.extra["roundtrip_checked"] = len(keep)
    for sig, (text, t, kind, detail) in sorted(rt_fail.items()):
        def pred(c, sig=sig):
            k = real_roundtrip(c)[0]
            f = shapes.run(c)
            return k not in ("ok", "skip") and (f[0] if f else "none") == sig
        small = shrink_ast(t, pred)
        k2, det2, txt2, _ = real_roundtrip(small)
        ctx.fail("round trip fails (%s): `%s` %s [shape: %s]" % (k2, txt2, det2, sig),
                 {"kind": "roundtrip", "ast": U.dump(small), "text": txt2}, {"kind": "roundtrip", "shape": sig})
    if first_print_diff:
        ctx.disagree("Printer model vs str(term)", "ast %s: implementation %r, model %s" % first_print_diff)
    if first_lex_diff:
        ctx.disagree("reference lexer vs _tokenize", "%s: model %s, implementation %s" % first_lex_diff)
    if first_rt_diff:
        ctx.disagree("model round trip vs real round trip", "`%s`: model %s, implementation %s %s" % first_rt_diff)
    ctx.obligation("correspondence (i): Printer model = str(term) on %d ASTs" % len(keep), first_print_diff is None)
    ctx.obligation("correspondence (ii'): reference lexer = _tokenize on %d printed strings" % len(keep), first_lex_diff is None)
    ctx.obligation("correspondence (ii'): model round trip = real round trip on %d ASTs" % len(keep), first_rt_diff is None)

    # =============================================================== (iii): collapse on corpus statements and mutants
    corpus = corpus_statements(P)
    if len(corpus) < 200:
        raise Infra("corpus too small: %d statements" % len(corpus))
    rng = ctx.sub_rng("mutants")
    n_mut = ctx.budget(20000, 400000)
    texts = [join_tokens(toks) for _, toks in corpus]
    texts += [str(t) for t, _, _ in keep[:600]]
    for _ in range(n_mut):
        _, toks = rng.choice(corpus)
        texts.append(join_tokens(mutate(rng, toks, rng.choice(corpus)[1])))
    lines, reals, crash_sites = [], [], {}
    bad_flags = []
    n_stmt = 0
    for s in texts:
        try:
            toks = list(P._tokenize(s))
        except Exception:
            ctx.count("collapse:untokenizable")
            continue
        toks = [x for x in toks if x.special != 2]
        if not toks:
            continue
        line = "parse (" + " ".join(U.tok_text(x, specials) for x in toks) + ")"
        for x in toks:  # hypothesis of C17_fold_total_partial on the flags of real tokens
            if x.aggregate or (not x.atom and x.functor) or (x.special in (3, 9) and x.atom):
                bad_flags.append((s[:80], x.string))
        if any(x.special == 12 for x in toks):
            ctx.count("collapse:has-sharp-open(outside C17_fold_total_partial)")
        real, site = real_collapse(s, toks)
        lines.append(line)
        reals.append((s, real))
        ctx.case(s, nontrivial=len(toks) >= 3)
        ctx.count("collapse:" + real.split(" ")[0])
        if site and (site not in crash_sites or len(s) < len(crash_sites[site])):
            crash_sites[site] = s
        n_stmt += 1
    models = drv.run(lines)
    first_collapse_diff = None
    n_fixed = 0
    for (s, real), model in zip(reals, models):
        r = same_outcome(model, real)
        if r == "skip":
            ctx.count("collapse:model-unsupported")
        elif r == "fixed":
            n_fixed += 1
        elif r == "diff" and first_collapse_diff is None:
            first_collapse_diff = (s[:200], model[:300], real[:300])
    if n_fixed:
        ctx.notes.append("%d statements: the model predicts a crash, the implementation raises a ProbLog error (fix applied)" % n_fixed)
    if first_collapse_diff:
        ctx.disagree("Parser model vs parser.collapse", "`%s`: model %s, implementation %s" % first_collapse_diff)
    ctx.obligation("correspondence (iii): collapse/label/fold model = parser.collapse on %d statements (corpus %d, mutants %d)" % (
        n_stmt, len(corpus), n_mut), first_collapse_diff is None)
    ctx.obligation("theorem tie: every real token satisfies the flag hypotheses of C17_fold_total_partial "
                   "(aggregate unset, functor only with atom, ',' and '|' not atoms)", not bad_flags, str(bad_flags[:3]))
    ctx.sample({"statement": texts[3][:120], "outcome": reals[3][1][:120] if len(reals) > 3 else ""})

    # =============================================================== (iv): totality fuzz on PrologString
    from problog.program import PrologString
    from problog.errors import ProbLogError
    rng = ctx.sub_rng("fuzz")
    n_fuzz = ctx.budget(20000, 500000)
    escapes = dict(("%s|%s" % k, v) for k, v in crash_sites.items())
    by_file = {}
    for f, toks in corpus:
        by_file.setdefault(f, []).append(toks)
    files = sorted(by_file)
    for i in range(n_fuzz):
        r = rng.random()
        if r < 0.75:
            sts = by_file[rng.choice(files)]
            a = rng.randrange(len(sts))
            sel = [list(x) for x in sts[a:a + rng.randrange(1, 4)]]
            for _ in range(rng.choice([1, 1, 2])):
                j = rng.randrange(len(sel))
                sel[j] = mutate(rng, sel[j], rng.choice(corpus)[1])
            s = " .\n".join(join_tokens(x) for x in sel) + (" ." if rng.random() < 0.9 else "")
            ctx.count("fuzz:token-mutant")
        elif r < 0.87:
            t, _, _ = keep[rng.randrange(len(keep))]
            try:
                toks = [x.string + ("\x00" if x.functor else "") for x in P._tokenize(str(t))]
            except ProbLogError:
                continue
            except Exception as e:  # the tokenizer crashed on a printed term: an escape like any other
                f, fn, line = U.site_of(e)
                key = "%s|%s:%s: %s" % (type(e).__name__, f, fn, line)
                ctx.count("fuzz-outcome:ESCAPE " + type(e).__name__)
                if key not in escapes or len(str(t)) < len(escapes[key]):
                    escapes[key] = str(t)
                continue
            s = join_tokens(mutate(rng, toks, rng.choice(corpus)[1])) + " ."
            ctx.count("fuzz:printed-ast-mutant")
        elif r < 0.95:
            s = "".join(rng.choice("ab X_1.,;:-()[]|'\"\\+*/<>=~ \n%0123456789e") for _ in range(rng.randrange(1, 40)))
            ctx.count("fuzz:random-chars")
        else:
            s = "".join(chr(rng.choice([rng.randrange(1, 128), rng.randrange(128, 0x3000)])) for _ in range(rng.randrange(1, 30)))
            ctx.count("fuzz:random-bytes")
        ctx.case(s, nontrivial=len(s) > 8)
        try:
            list(PrologString(s))
            ctx.count("fuzz-outcome:program")
        except ProbLogError as e:
            ctx.count("fuzz-outcome:" + type(e).__name__)
        except RecursionError:
            ctx.count("fuzz-outcome:RecursionError(resource)")
        except Exception as e:
            f, fn, line = U.site_of(e)
            key = "%s|%s:%s: %s" % (type(e).__name__, f, fn, line)
            ctx.count("fuzz-outcome:ESCAPE " + type(e).__name__)
            if key not in escapes or len(s) < len(escapes[key]):
                escapes[key] = s
    # structured malformed stream (always run)
    for s in ["a <.", "() :- a.", "0.5::().", "- ().", "().", "avg<X>.", "0.5::\\+1.", "':'(a) :- b.", ";(a) :- b.",
              "; :- a.", "x :- X is " + "9" * 5000 + ".", "f().", "a :- (", "a :- ).", "'abc", '"abc', "a. /* x", "a.b.",
              "[a|b|c].", "p(avg<X>) :- q(X).", "<X> = a.", "a - <X> (b).", "\\+ () :- a.", "f(a:-b).", ":- .", "."]:
        ctx.case(s)
        ctx.count("fuzz:structured-malformed")
        try:
            list(PrologString(s))
        except ProbLogError:
            pass
        except RecursionError:
            pass
        except Exception as e:
            f, fn, line = U.site_of(e)
            key = "%s|%s:%s: %s" % (type(e).__name__, f, fn, line)
            if key not in escapes or len(s) < len(escapes[key]):
                escapes[key] = s
    for key, s in sorted(escapes.items()):
        kind, site = key.split("|", 1)

        def still(c, key=key):
            try:
                list(PrologString(c))
            except ProbLogError:
                return False
            except RecursionError:
                return False
            except Exception as e:
                f, fn, line = U.site_of(e)
                return "%s|%s:%s: %s" % (type(e).__name__, f, fn, line) == key
            return False
        small = shrink_text(s, still)
        ctx.fail("%s escapes from the parser at %s on `%s`" % (kind, site, small[:200]),
                 {"kind": "escape", "text": small}, {"kind": kind, "site": site})
    ctx.sample({"fuzz_escape_sites": sorted(escapes)[:6]})
    return ctx.finish("other", explanation=MANIFEST["note"])


def shrink_text(s, pred, budget=300):
    """Token-wise delta debugging of a program text."""
    toks = s.split(" ")
    n = 0
    changed = True
    while changed and n < budget:
        changed = False
        i = len(toks) - 1
        while i >= 0 and n < budget:
            cand = toks[:i] + toks[i + 1:]
            n += 1
            if cand and pred(" ".join(cand)):
                toks = cand
                changed = True
            i -= 1
    return " ".join(toks)


def replay(ctx, drv, shapes, specials):
    import c17_util as U
    from problog.program import PrologString
    from problog.errors import ProbLogError
    rp = json.load(open(ctx.replay_in))["replay"]
    if rp.get("kind") == "escape":
        s = rp["text"]
        ctx.case(s)
        try:
            list(PrologString(s))
        except ProbLogError:
            pass
        except Exception as e:
            f, fn, line = U.site_of(e)
            ctx.fail("%s escapes from the parser at %s:%s: %s on `%s`" % (type(e).__name__, f, fn, line, s),
                     rp, {"kind": type(e).__name__, "site": "%s:%s: %s" % (f, fn, line)})
    elif rp.get("kind") == "roundtrip":
        t = U.undump(rp["ast"])
        ctx.case(rp["ast"])
        kind, detail, text, _ = real_roundtrip(t)
        found = shapes.run(t)
        if kind not in ("ok", "skip"):
            sig = found[0] if found else "none"
            ctx.fail("round trip fails (%s): `%s` %s [shape: %s]" % (kind, text, detail, sig), rp,
                     {"kind": "roundtrip", "shape": sig})
    # the pinned witnesses of the listed findings are replayed as well (cheap; keeps the evidence meaningful)
    for f in ctx.known.get("findings", []):
        if f.get("property") == "C17" and f.get("match", {}).get("kind") == "roundtrip":
            try:
                wt = _parser().parseString(f["witness"])[0]
            except Exception:
                continue
            kind, detail, text, _ = real_roundtrip(wt)
            ctx.case(f["witness"])
            if kind != "ok":
                found = shapes.run(wt)
                ctx.fail("round trip fails (%s): `%s` printed `%s` %s" % (kind, f["witness"], text, detail),
                         {"kind": "roundtrip", "ast": U.dump(wt), "text": text},
                         {"kind": "roundtrip", "shape": found[0] if found else "none"})
    return ctx.finish("other")
