"""C01 — exact inference computes the distribution semantics.

Specification (Lean, `ProbLogModel/Sem.lean`, executed through the compiled driver): naive possible-world enumeration
with the well-founded model per total choice.  The harness instantiates each generated first-order program over its
constants (one independent choice per probabilistic fact occurrence; one AD group per instantiation of all variables
of an AD clause) and sends the propositional program to `SEM`.
Implementation: the default exact pipeline `get_evaluatable().create_from(PrologString(src)).evaluate()` and the same
pipeline staged (ground -> break_cycles -> clarks_completion -> dsharp -> evaluate) with and without evidence
propagation.
The stage models (Formula/Cycles/Clark/DDNNF) and their theorems are checked by C09/C10/C11; this check composes
them (obligation `pipeline`) and compares end to end."""
import spine
from lib import close

MODULE = "ProbLogProofs.Properties.C01"
THEOREMS = [
    "ProbLogProofs.C01.C01_worlds_total_weight",
]

MODULE_SEM = "ProbLogProofs.Properties.C01Sem"
THEOREMS_SEM = [
    "ProbLogProofs.C01.C01_worlds_weight_sum",
    "ProbLogProofs.C01.C01_worlds_count",
    "ProbLogProofs.C01.C01_gamma_fixpoint",
    "ProbLogProofs.C01.C01_gamma_closed",
    "ProbLogProofs.C01.C01_gamma_least",
    "ProbLogProofs.C01.C01_gamma_least_below",
    "ProbLogProofs.C01.C01_relevant_iff_reach",
    "ProbLogProofs.C01.C01_wfm_fixpoint",
    "ProbLogProofs.C01.C01_wfm_two_valued_definite",
]

# the first-order level of the specification: `SemFO.ground` (Lean) is the full Herbrand instantiation
MODULE_FO = "ProbLogProofs.Properties.C01FO"
THEOREMS_FO = [
    "ProbLogProofs.C01FO.C01FO_ground_rules_spec",
    "ProbLogProofs.C01FO.C01FO_ground_complete",
    "ProbLogProofs.C01FO.C01FO_assignments_spec",
    "ProbLogProofs.C01FO.C01FO_alternatives_spec",
    "ProbLogProofs.C01FO.C01FO_vars_spec",
    "ProbLogProofs.C01FO.C01FO_subst_spec",
    "ProbLogProofs.C01FO.C01FO_atomId_injective",
    "ProbLogProofs.C01FO.C01FO_herbrand_spec",
    "ProbLogProofs.C01FO.C01FO_groups_spec",
    "ProbLogProofs.C01FO.C01FO_group_probs",
    "ProbLogProofs.C01FO.C01FO_choice_ids_disjoint",
    "ProbLogProofs.C01FO.C01FO_choice_ids_bound",
]

MANIFEST = {
    "level": "proof",
    "technique": "Lean 4 specification of the distribution semantics (world enumeration + well-founded model) executed "
                 "next to the real inference pipeline on generated programs; Lean theorems about the specification and the "
                 "pipeline stage models; end-to-end and per-stage correspondence",
    "text": "The reference is a Lean definition (Sem.run) that is executed on every generated program and compared with "
            "ProbLog's reported instances, probabilities and inconsistent-evidence decision. Theorems about the stage "
            "models (builder C11, cycle breaking = perfect model C09_breakCycles_correct, Clark C09, d-DNNF loader/evaluator "
            "C10) are composed downstream of the grounder (C01_pipeline_downstream: the evaluator's answer is the weight of the "
            "consistent valuations of the acyclic ground program in which the query holds, normalised by the evidence); "
            "the tabled grounder itself is tied extensionally per generated program (not proved for all programs), except on "
            "ground programs without recursion: there it is modelled (ProbLogModel/GroundAcyclic.lean, exact equality of the "
            "ground program with the real engine's) and proved correct against Sem.wfm for all programs, schedules and call "
            "histories (C01Ground.C01_ground_acyclic_correct). On function-free programs WITH variables (no recursion) the "
            "grounder is modelled too (ProbLogModel/GroundFO.lean, exact equality of ground program, names per query instance "
            "and both DefineCache tables); proved there: the structural table invariant (C01GroundFO.*_partial); the "
            "correctness statement CorrectFO (reported instances have the key of their truth value in Sem.wfm of the "
            "Herbrand instantiation, unreported instances are false) is CHECKED per generated program by executing the Lean "
            "definitions (Drivers.GroundFOCheck) and PROVED for the model in partial-correctness form for every schedule and "
            "call history (C01GroundFOFull.C01_groundFO_correct_wfm_partial: whenever the model returns; decidable hypotheses "
            "SpecOK - arities, constants and variables in range, range restriction, block layout of names, acyclic "
            "instantiation - decided per generated program by the driver; reported tuples proved in range, so the statement "
            "CorrectFO itself holds whenever the model returns: C01_groundFO_CorrectFO_of_returns). Termination: fuel "
            "sufficiency proved (C01_groundFO_fuel_sufficient, fuel > predicate rank), total correctness proved on the "
            "instantiation route (C01_groundFO_instantiation_total: ground model on inst P); the other error exits of the "
            "first-order model (floundering negation, builder errors) are excluded per program by the executable check only.",
    "note": "Trusted: Lean kernel + standard axioms; the serialiser of first-order programs (spine.fo_sexp; the Herbrand instantiation itself is Lean's SemFO.ground, proved in C01FO, and cross-checked against the former Python instantiation on every program); Sem as the "
            "meaning of 'distribution semantics'. The engine (engine_stack.py/eval_nodes.py) is not modelled: agreement is "
            "established on the generated programs only. Floats vs exact rationals at 1e-9.",
    "design_ref": "DESIGN.md §5, §6 C01",
}


def classify_error(err):
    stage, name, site = err[0], err[1], err[2] if len(err) > 2 else ""
    return stage, name, site


def check_program(ctx, P, src, sem, run, tag):
    """Compare one implementation run (results dict or error tuple) with the specification result `sem`.
    Returns a list of (what, signature)."""
    out = []
    kind, val = run
    if sem["undef"] > 0:
        return out  # not in the C01 fragment (some world has no two-valued model): C02's business
    if kind == "error":
        stage, name, site = val[0], val[1], val[2]
        if name == "InconsistentEvidenceError":
            if sem["z"] != 0:
                out.append(("%s: InconsistentEvidenceError although P(evidence) = %s" % (tag, sem["z"]),
                            {"kind": "wrong-inconsistent", "tag": tag}))
        elif name == "Timeout":
            ctx.count("timeout")
        else:
            out.append(("%s: %s raised at %s" % (tag, name, site),
                        {"kind": "exception", "exc": name, "site": site, "spec_negcycle": sem["negcycle"],
                         "f1_shape": spine.f1_condition(P)}))
        return out
    if sem["z"] == 0:
        out.append(("%s: answered %s although P(evidence) = 0" % (tag, val), {"kind": "missing-inconsistent", "tag": tag}))
        return out
    probs = sem["probs"]
    for k, v in probs.items():
        g = val.get(k)
        if g is None:
            if v != 0:
                out.append(("%s: %s not reported but has probability %s" % (tag, k, v), {"kind": "unreported", "tag": tag}))
        elif not close(g, v):
            out.append(("%s: %s reported %r, distribution semantics gives %s = %r" % (tag, k, g, v, float(v)),
                        {"kind": "wrong-probability", "tag": tag}))
    for k, g in val.items():
        if k not in probs:
            nonground = any(c.isupper() or c == "_" for c in k.split("(", 1)[-1]) if "(" in k else False
            if not (nonground and g == 0):
                out.append(("%s: reported %s = %r which is not an instance of any query" % (tag, k, g),
                            {"kind": "spurious-instance", "tag": tag}))
    return out


def real_default(src, timeout=30):
    from problog.program import PrologString
    from problog import get_evaluatable

    def body():
        r = get_evaluatable().create_from(PrologString(src)).evaluate()
        return {str(k): v for k, v in r.items()}
    try:
        return ("ok", spine.with_timeout(timeout, body))
    except spine.Timeout:
        return ("error", ("run", "Timeout", ""))
    except Exception as e:
        import os
        import traceback
        site = ""
        for fr_ in reversed(traceback.extract_tb(e.__traceback__)):
            if "/problog/" in fr_.filename:
                site = "%s:%s:%s" % (os.path.basename(fr_.filename), fr_.name, (fr_.line or "").strip())
                break
        return ("error", ("run", type(e).__name__, site))


def _default_only(src):
    return real_default(src)


def run_both(src):
    """Worker: default pipeline and staged pipeline with evidence propagation. Returns picklable data only."""
    runs = [("default", real_default(src))]
    st = spine.run_pipeline(src, propagate_evidence=True, keep_nnf=False, timeout=30)
    if st.error:
        runs.append(("staged+propagate", ("error", st.error)))
    else:
        runs.append(("staged+propagate", ("ok", {str(k): v for k, v in st.results.items()})))
    nontrivial = hasattr(st, "lf") and any(type(n).__name__ != "atom" for n in st.lf._nodes) and st.lf.atomcount > 0
    return runs, nontrivial


def shrink_program(P, still_fails):
    """Delta-debug: drop statements, queries, evidence, body literals while the failure persists."""
    import copy
    cur = copy.deepcopy(P)
    changed = True
    while changed:
        changed = False
        for key in ("stmts", "queries", "evidence"):
            i = len(cur[key]) - 1
            while i >= 0:
                if key == "queries" and len(cur[key]) == 1:
                    break
                cand = copy.deepcopy(cur)
                del cand[key][i]
                try:
                    if spine.valid_program(cand) and still_fails(cand):
                        cur = cand
                        changed = True
                except Exception:
                    pass
                i -= 1
        for si, s in enumerate(cur["stmts"]):
            bi = {"rule": 2, "prule": 3, "ad": 2}.get(s[0])
            if bi is None:
                continue
            j = len(s[bi]) - 1
            while j >= 0 and len(cur["stmts"][si][bi]) > 1:
                cand = copy.deepcopy(cur)
                body = list(cand["stmts"][si][bi])
                del body[j]
                st = list(cand["stmts"][si])
                st[bi] = body
                cand["stmts"][si] = tuple(st)
                try:
                    if spine.valid_program(cand) and still_fails(cand):
                        cur = cand
                        changed = True
                except Exception:
                    pass
                j -= 1
    return cur


def run(ctx):
    ctx.rule = ("typed random programs of the C01 fragment (probabilistic facts, ADs with/without bodies, definite rules, "
                "predicate-level stratified negation, positive recursion, ground/non-ground queries, evidence sampled from a "
                "world, 6% arbitrary evidence); distinct = distinct source text; non-trivial = ground program has a "
                "compound node and at least one probabilistic choice")
    ctx.proof_phase(MODULE, THEOREMS)
    ctx.proof_phase(MODULE_SEM, THEOREMS_SEM, refutations=["ProbLogProofs.C01.C01_worklist_fuel_insufficient"])
    ctx.proof_phase(MODULE_FO, THEOREMS_FO)
    # the reference reports probabilities: 0 <= P(q & e) <= P(e) <= 1 under C30's validity condition on the annotations
    ctx.proof_phase("ProbLogProofs.Properties.C01SemProb", ["ProbLogProofs.C01.C01_spec_is_probability",
                                                             "ProbLogProofs.C01.C01_run_is_probability",
                                                             "ProbLogProofs.C01.C01_spec_total_probability",
                                                             "ProbLogProofs.C01.C01_spec_evidence_is_intersection",
                                                             "ProbLogProofs.C01.C01_spec_more_evidence_less_mass",
                                                             "ProbLogProofs.C01.C01_run_definite_no_undef"],
                    refutations=["ProbLogProofs.C01.C01_invalid_group_negative_weight"])
    # downstream of the grounder: evaluate(loaded d-DNNF) = weighted count over the consistent valuations of the acyclic
    # ground program (A17), cycle breaking = perfect model (A16), Clark = unique model (A10)
    ctx.proof_phase("ProbLogProofs.Properties.C10Bridge", ["ProbLogProofs.C10.C01_pipeline_downstream", "ProbLogProofs.C10.C01_pipeline_downstream_atoms",
                                                            "ProbLogProofs.C10.C01_extractWeights_spec", "ProbLogProofs.C10.C10_evaluate_is_conditional_wmc"])
    ctx.proof_phase("ProbLogProofs.Properties.C09Unroll", ["ProbLogProofs.C09.C09_breakCycles_correct"])
    # the grounder itself, on ground programs without recursion: model + exact correspondence + theorem
    # C01_ground_acyclic_correct (upstream of C01_pipeline_downstream)
    import ground_util
    gerr = ground_util.guarded(ctx, "all", 200, 6000)
    import groundfo_util           # the same on programs WITH variables (first-order model, exact correspondence)
    gerr2 = groundfo_util.guarded(ctx, "all", 150, 5000)
    gerr = gerr or gerr2
    if ground_util.is_ground_replay(ctx):
        return ground_util.after(ctx.finish("proof"), gerr)     # (the replay belongs to the phase above)
    rc = _run_rest(ctx)
    return ground_util.after(rc, gerr)


def _run_rest(ctx):
    drv = ctx.driver("Drivers.Spine")
    if drv is None:
        return ctx.finish("proof")
    rng = ctx.sub_rng("programs")
    nprog = ctx.budget(150, 4000)
    progs = []
    if ctx.replay_in:
        import json
        progs = [json.load(open(ctx.replay_in))["replay"]["program"]]
        for p in progs:
            p["stmts"] = [tuple(s) for s in p["stmts"]]
    else:
        for i in range(nprog):
            progs.append(spine.gen_program(rng, disjunction=True, numeric=True))
    # pinned regression corpus: programs inside the structural region of known finding F1 that the tree answered
    # correctly when the corpus was built (tools/gen_c01_corpus.py); a failure here is never matched by the finding
    import json
    import os
    from lib import VERIF
    import cfgprop
    import semcheck
    cpath = os.path.join(VERIF, "corpus", "C01", "f1_region_answered.json")
    if os.path.exists(cpath) and not ctx.replay_in:
        corpus = [cfgprop.load_program(P) for P in json.load(open(cpath))]
        csem = semcheck.spec_batch(drv, corpus)
        from lib import pmap as _pmap
        cruns = _pmap(_default_only, [spine.to_src(P) for P in corpus])
        # a pinned program that ran out of time (loaded machine) is run again, alone, with a long limit
        cruns = [real_default(spine.to_src(P), timeout=180) if (r[0] == "error" and r[1][1] == "Timeout") else r
                 for P, r in zip(corpus, cruns)]
        for P, sem, r in zip(corpus, csem, cruns):
            ctx.case("corpus:" + spine.to_src(P), nontrivial=True)
            bad = semcheck.compare(P, sem, r, "default")
            if bad and not (r[0] == "error" and r[1][1] == "Timeout"):
                ctx.fail("corpus program (answered correctly when the corpus was built): %s | program: %s" % (
                    bad[0][0], spine.to_src(P).replace("\n", " ")), {"program": P, "src": spine.to_src(P), "corpus": True},
                    {"kind": "corpus-regression"})
                break
        ctx.count("corpus programs (F1 region, answered)", len(corpus))
    # specification value: op SEMFO (Lean grounds the first-order program), cross-checked against reference+SEM
    sems = semcheck.spec_batch(drv, progs)
    nfail = 0
    from lib import pmap
    work = pmap(run_both, [spine.to_src(P) for P in progs])
    for P, sem, (runs, nontrivial) in zip(progs, sems, work):
        src = spine.to_src(P)
        if sem is None:
            ctx.count("skipped(too many worlds)")
            continue
        if sem["undef"] > 0:
            ctx.count("outside-fragment(non-two-valued)")
            continue
        ctx.case(src, nontrivial=nontrivial)
        ctx.count("worlds<=%d" % (1 << max(0, (sem["nworlds"] - 1)).bit_length()))
        if P["evidence"]:
            ctx.count("with-evidence")
        if sem["z"] == 0:
            ctx.count("inconsistent-evidence")
        if any(s[0] == "ad" for s in P["stmts"]):
            ctx.count("with-AD")
        if any(l[0] == "neg" for s in P["stmts"] if s[0] in ("rule", "prule") for l in s[-1]):
            ctx.count("with-negation")
        if len(ctx.samples) < 3:
            ctx.sample({"src": src, "spec": {k: str(v) for k, v in sem["probs"].items()}, "impl": str(runs[0][1])[:300]})
        for tag, r in runs:
            for what, sig in check_program(ctx, P, src, sem, r, tag):
                def still(c, tag=tag, sig=sig):
                    s2 = semcheck.spec_batch(drv, [c])[0]
                    if s2 is None:
                        return False
                    src2 = spine.to_src(c)
                    if tag == "default":
                        r2 = real_default(src2)
                    else:
                        st2 = spine.run_pipeline(src2, propagate_evidence=True, keep_nnf=False, timeout=30)
                        r2 = ("error", st2.error) if st2.error else ("ok", {str(k): v for k, v in st2.results.items()})
                    return any(s["kind"] == sig["kind"] and s.get("exc") == sig.get("exc") and s.get("site") == sig.get("site")
                               for _, s in check_program(ctx, c, src2, s2, r2, tag))
                small = P
                if nfail < 3:
                    small = shrink_program(P, still)
                nfail += 1
                ctx.fail(what + " | program: " + spine.to_src(small).replace("\n", " "),
                         {"program": small, "src": spine.to_src(small), "tag": tag}, sig)
                break
    return ctx.finish("proof")
