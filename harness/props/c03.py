"""C03 — grounding result is independent of the order sibling goals are explored.

Hook (guarded, ML_KULEUVEN_PROBLOG_VERIF=1): every batch of sibling 'e' (evaluate) messages pushed by the default
buffered engine is permuted with a seeded RNG (`engine_stack._verif_set_schedule`). Every generated program is run
under N schedule seeds; each run is compared with ONE value: the Lean specification `Sem` of the program (instances,
probabilities, inconsistent-evidence decision, error class)."""
import random

import cfgprop
import spine

MODULE = "ProbLogProofs.Properties.C03"
THEOREMS = ["ProbLogProofs.C03.C03_spec_base"]

MANIFEST = {
    "level": "other",
    "technique": "seeded permutation of sibling evaluation messages (guarded hook) on generated programs, every schedule "
                 "compared with the Lean specification Sem; Lean theorems cover the specification and the stages downstream "
                 "of the grounder only; on ground programs without recursion the engine itself is modelled "
                 "(ProbLogModel/GroundAcyclic.lean: exact equality of the ground program under the recorded schedule) and "
                 "schedule independence is a Lean theorem (C01Ground.C03_ground_schedule_independent)",
    "text": "Partial: the quantifier over schedules is explored, not proved. What Lean proves is that results are a function "
            "of the denotation of the ground program (pipeline stages C09-C11, specification C01); the message-passing "
            "grounder itself is not modelled. Each schedule's output is compared with the specification value, so two "
            "schedules can only differ if one of them differs from the specification.",
    "note": "Ground acyclic fragment: harness/ground_util.py records the permutation the hook applied to every batch of sibling "
            "clauses (wrapper around engine_stack._verif_shuffle) and hands it to the model. "
            "Trusted: harness, hook in engine_stack.py (add-only, off by default). Known finding F1 (false NegativeCycle, "
            "schedule dependent) is reported as KNOWN-FINDING. Second stream (harness/explore_util.py): 860 small cyclic "
            "programs and the must-reject ones (~130) of 300 programs with loops through negation under 3 orders each, engine "
            "outcome vs Sem with the numbers computed by enumeration of the ground formula (candidates confirmed with the full "
            "pipeline before they are reported); pinned corpus corpus/C03/schedules.json under all schedules. "
            "First-order sub-phase (harness/groundfo_util.py): programs with variables against ProbLogModel/GroundFO.lean, exact correspondence under the recorded schedule / history; the semantic statement (CorrectFO) is checked per program by Drivers.GroundFOCheck under the recorded and an arbitrary schedule, and proved for the model in partial-correctness form (C01GroundFOFull: every schedule and history, against Sem.wfm of the Herbrand instantiation, under the decidable hypotheses SpecOK which the driver decides per program; termination of the model is not proved).",
    "design_ref": "DESIGN.md §6 C03, §7",
}

N = [6]


def variants(P, seed):
    rng = random.Random(seed)
    src = spine.to_src(P)
    out = [("unpermuted", src, {})]
    for k in range(N[0]):
        out.append(("sched#%d" % k, src, {"sched": rng.randrange(1 << 30), "ground": {"propagate_evidence": k % 2 == 1}}))
    return out


def few_variants(P, seed):
    """The first schedules of `variants` (a replay through `variants` reproduces them)."""
    return variants(P, seed)[:NFEW[0]]


NFEW = [3]


def extra_streams(ctx):
    """Streams in front of the main one (see harness/explore_util.py):
    1. pinned corpus corpus/C03/schedules.json (tools/gen_c03_corpus.py): hand-written and generated cyclic programs on which
       the unpermuted run and 30 seeded schedules gave the specification's answer, and programs with a loop through negation
       that all of them rejected, when the corpus was built; a changed outcome is a corpus-regression (never a known finding);
    2. many SMALL cyclic programs (mutual recursion through 2-4 predicates, several clauses per predicate, body disjunctions,
       goals called again inside an open cycle) under the unpermuted order + 2 schedules each, cheap comparison (engine
       outcome vs `Sem`, numbers by enumeration of the ground formula, every candidate confirmed with the full pipeline);
    3. small programs with a loop through negation that the specification classifies as must-reject and that have no positive
       cycle (explore_util.reject_region), same schedules: answered under ANY schedule = the errors depend on the order.
    Returns True if a --replay file of one of these streams has been handled."""
    import explore_util as X
    drv = ctx.driver("Drivers.Spine")
    if drv is None:
        return False
    if X.replay_case(ctx, drv, variants):
        return True
    if ctx.replay_in:
        return False
    X.corpus_replay(ctx, drv, X.corpus_path("C03", "schedules.json"), variants, "schedules agreed")
    rng = ctx.sub_rng("cyclic-stream")
    progs = [X.gen_tight(rng) for _ in range(ctx.budget(800, 6000))] + [X.gen_cyclic(rng, light=True) for _ in range(ctx.budget(60, 1000))]
    X.cheap_stream(ctx, drv, progs, [rng.randrange(1 << 30) for _ in progs], few_variants, "small-cyclic")
    rng = ctx.sub_rng("negloop-stream")
    progs = [X.gen_negloop(rng) for _ in range(ctx.budget(300, 3000))]
    X.cheap_stream(ctx, drv, progs, [rng.randrange(1 << 30) for _ in progs], few_variants, "negative-loop", cls="reject")
    return False


def run(ctx):
    N[0] = ctx.budget(6, 30)
    NFEW[0] = ctx.budget(3, 4)
    if extra_streams(ctx):
        ctx.proof_phase(MODULE, THEOREMS)
        return ctx.finish("other", "replay of a case of the corpus / small-program streams")
    ctx.rule = ("generated programs x seeded schedules (permutation of every batch of sibling 'e' messages); a case = one "
                "program with its schedule seeds; non-trivial = at least one query instance and more than one world; in front: "
                "pinned corpus (all schedules), small cyclic programs and must-reject programs x 3 orders (cheap comparison)")
    # ground programs without recursion: the engine is MODELLED (exact correspondence of the ground program under the
    # recorded schedule) and schedule independence is a theorem (C03_ground_schedule_independent)
    import ground_util
    gerr = ground_util.guarded(ctx, "sched", 200, 6000)
    import groundfo_util           # the same on programs WITH variables (first-order model, exact correspondence)
    gerr2 = groundfo_util.guarded(ctx, "sched", 150, 5000)
    gerr = gerr or gerr2
    rc = cfgprop.run(ctx, MODULE, THEOREMS, variants, nq=50, nt=700, level="other", gen_kwargs={"disjunction": True},
                     explanation="Schedules are explored (seeded), not proved, on general programs; every schedule is compared "
                                 "with the Lean specification. On ground programs without recursion the engine is modelled "
                                 "(lean/ProbLogModel/GroundAcyclic.lean, exact correspondence under the recorded schedule) and "
                                 "schedule independence is proved (ProbLogProofs.C01Ground).")
    return ground_util.after(rc, gerr)
