"""C14 — unification is sound and complete syntactic unification.

Proof: Lean theorems about the reference `mguFuel` (Robinson with explicit fuel): sound, most general, complete
(clash / occurs outcomes mean "no unifier"), never a cyclic binding (lean/ProbLogProofs/Properties/C14.lean).
Tie: (i) every call of unify_value / unify_call_head / unify_call_return / substitute_call_args /
substitute_head_args made by the real engine while it runs the generated programs is recorded and replayed on the
hand-written Lean model (lean/ProbLogModel/Unify.lean) — exact comparison; (ii) synthetic direct calls, exact;
(iii) the model of `T1 = T2` / `T1 \\= T2` as body literals against the engine's program-level answer (up to renaming).
Search oracle (independent of the Lean model): a Python Robinson unifier compared with the engine at program level:
`q(V1..Vn) :- T1 = T2.`, `q :- T1 \\= T2.`, `p(T1). ?- p(T2)`, `p(T1) :- HV = c.  q(Vs) :- p(T2), CV = d.`;
the Python reference itself is cross-checked against the proved Lean `mguFuel` on every system."""
import json

from lib import Infra
import unify_util as U
import unify_prog as P

MODULE = "ProbLogProofs.Properties.C14"
THEOREMS = [
    "ProbLogProofs.C14.C14_mguSys_sound",
    "ProbLogProofs.C14.C14_mgu_sound",
    "ProbLogProofs.C14.C14_mguSys_mostGeneral",
    "ProbLogProofs.C14.C14_mgu_mostGeneral",
    "ProbLogProofs.C14.C14_mgu_complete_clash",
    "ProbLogProofs.C14.C14_mgu_complete_occurs",
    "ProbLogProofs.C14.C14_mguSys_complete",
    "ProbLogProofs.C14.C14_mgu_complete",
    "ProbLogProofs.C14.C14_no_cyclic_binding",
    "ProbLogProofs.C14.C14_comp_apply",
    "ProbLogProofs.C14.C14_unifyValue_complete_partial",
    "ProbLogProofs.C14.C14_builtinEq_complete_partial",
    "ProbLogProofs.C14.C14_unifyValue_fail_agrees_mgu_partial",
]
REFUTATIONS = [
    "ProbLogProofs.C14.C14_eqBuiltin_sharing_refuted",
    "ProbLogProofs.C14.C14_eqBuiltin_cyclic_refuted",
]

MANIFEST = {
    "level": "proof",
    "technique": "Lean 4 theorems about a reference Robinson unifier (fuel-indexed) + hand-written Lean model of "
                 "engine_unify.py tied by replaying the engine's own recorded calls (exact) + independent Python "
                 "Robinson oracle against the engine at program level (=/2, \\=/2, clause-head resolution)",
    "text": "Lean: mguFuel is sound, most general (theta = theta . sigma), complete (clash/occurs => no unifier), never "
            "makes a cyclic binding (idempotent). Every run: bounded-exhaustive and random pairs of terms over "
            "{a,b,1,1.0,'A b',\"s\",[],f/1,g/2,lists,X,Y,Z,_} through the real engine as =/2, \\=/2, top-level query "
            "against a fact, and call from a clause body, compared with a Python Robinson unifier (answer instance up "
            "to renaming; occurs-check situations may fail or raise OccursCheck, never succeed); the Python reference is "
            "compared with the proved Lean mguFuel on every system (fuel never exhausted: checked per instance); the "
            "Lean model of unify_value/unify_value_dc/unify_call_head/unify_call_return/substitute_* is compared exactly "
            "with the real functions on all calls the engine made plus synthetic ones.",
    "note": "The model of the Python functions is hand-written and tied only on the inputs run. For the code itself the "
            "full agreement statement is false (refutation theorems + known findings: lost sharing in "
            "unify_call_return, top-level queries lack the call-return unification, indirect cycles are not detected); "
            "proved for the model: unify_value never fails or raises OccursCheck on unifiable input "
            "(C14_unifyValue_complete_partial). Trusted: Lean kernel, standard axioms, harness and driver glue.",
    "design_ref": "DESIGN.md §6 C14, §9 row C14",
}

SITE = {"eq": "=/2 (unify_value + unify_call_return)", "neq": "\\=/2", "clause": "call from clause body (unify_call_return)"}


# --------------------------------------------------------------------------------------------- recording real calls
class Recorder:
    """Wraps the unification functions where the engine looks them up and records (op line, expected output)."""

    def __init__(self, limit):
        self.limit = limit
        self.seen = {}
        self.n = {}
        self.patched = []

    def keep(self, op, line, expected):
        if line in self.seen:
            return
        c = self.n.get(op, 0)
        if c >= self.limit:
            return
        self.n[op] = c + 1
        self.seen[line] = expected

    def install(self):
        import problog.engine_stack as es
        import problog.engine_builtin as eb
        import problog.engine as en
        import problog.engine_unify as eu
        rec = self

        def wrap(mod, name, fn):
            orig = getattr(mod, name)
            self.patched.append((mod, name, orig))
            setattr(mod, name, fn(orig))

        def w_uch(orig):
            def f(call_args, head_args, target_context):
                line = "uch %s %s %s" % (sxl(call_args), sxl(head_args), sxl(target_context))
                try:
                    r = orig(call_args, head_args, target_context)
                    rec.keep("uch", line, "ok %s %s" % (sxl(target_context), sxl(r)))
                    return r
                except Exception as e:
                    rec.keep("uch", line, "ERR " + exc_name(e))
                    raise
            return f

        def w_ucr(orig):
            def f(result, call_args, context, var_translate, min_var, mask=None):
                m = mask if mask is not None else [True] * len(call_args)
                line = "ucr %s %s %s %s %d (%s)" % (sxl(result), sxl(call_args), sxl(context), U.sx_kk(var_translate),
                                                    min_var, " ".join("1" if x else "0" for x in m))
                try:
                    r = orig(result, call_args, context, var_translate, min_var, mask)
                    rec.keep("ucr", line, "ok %s" % sxl(r))
                    return r
                except Exception as e:
                    rec.keep("ucr", line, "ERR " + exc_name(e))
                    raise
            return f

        def w_sca(orig):
            def f(terms, context, min_var):
                line = "sca %s %s" % (sxl(terms), sxl(context))
                try:
                    r = orig(terms, context, min_var)
                    rec.keep("sca", line, "ok %s %s" % (sxl(r[0]), U.sx_kk(r[1])))
                    return r
                except Exception as e:
                    rec.keep("sca", line, "ERR " + exc_name(e))
                    raise
            return f

        def w_sha(orig):
            def f(terms, context):
                line = "sha %s %s" % (sxl(terms), sxl(context))
                try:
                    r = orig(terms, context)
                    rec.keep("sha", line, "ok %s" % sxl(r))
                    return r
                except Exception as e:
                    rec.keep("sha", line, "ERR " + exc_name(e))
                    raise
            return f

        def w_uv(orig):
            def f(value1, value2, source_values):
                if source_values:
                    return orig(value1, value2, source_values)
                line = "uv %s %s ()" % (sx1(value1), sx1(value2))
                try:
                    r = orig(value1, value2, source_values)
                    rec.keep("uv", line, "ok %s %s" % (sx1(r), U.sx_dict(source_values)))
                    return r
                except Exception as e:
                    rec.keep("uv", line, "ERR " + exc_name(e))
                    raise
            return f

        wrap(es, "unify_call_head", w_uch)
        wrap(es, "unify_call_return", w_ucr)
        wrap(es, "substitute_call_args", w_sca)
        wrap(en, "substitute_call_args", w_sca)
        wrap(es, "substitute_head_args", w_sha)
        wrap(eb, "unify_value", w_uv)

    def uninstall(self):
        for mod, name, orig in reversed(self.patched):
            setattr(mod, name, orig)
        self.patched = []


def exc_name(e):
    n = type(e).__name__
    return "OutOfFuel" if n == "RecursionError" else n


def sx1(v):
    return U.sx(U.from_engine(v))


def sxl(vs):
    return "(" + " ".join(sx1(v) for v in vs) + ")"


# --------------------------------------------------------------------------------------------- generators
SHARE_LEAVES = [('v', 'X'), ('v', 'Y'), ('v', 'Z'), ('a', 'a')]


def share_terms(n, memo={}):
    """Terms of exactly n symbols over {X,Y,Z,a,f/1,g/2}: the repeated-variable family."""
    if n in memo:
        return memo[n]
    if n == 1:
        out = list(SHARE_LEAVES)
    else:
        out = [('c', 'f', (a,)) for a in share_terms(n - 1)]
        for i in range(1, n - 1):
            for a in share_terms(i):
                for b in share_terms(n - 1 - i):
                    out.append(('c', 'g', (a, b)))
    memo[n] = out
    return out


def pairs_total(maxtotal, terms_of):
    out = []
    for n1 in range(1, maxtotal):
        for n2 in range(1, maxtotal - n1 + 1):
            for a in terms_of(n1):
                for b in terms_of(n2):
                    out.append((a, b))
    return out


def random_pair(rng):
    d = rng.choice([2, 3, 3, 4])
    t1 = U.random_term(rng, d, pvar=rng.choice([0.3, 0.5, 0.7]))
    t2 = U.mutate(rng, t1) if rng.random() < 0.7 else U.random_term(rng, d)
    if rng.random() < 0.5:
        t1, t2 = t2, t1
    return t1, t2


def make_case(rng, mode, t1, t2):
    c = {"mode": mode, "t1": t1, "t2": t2}
    if mode == "fact":
        c["spread"] = rng.random() < 0.6
    if mode == "clause":
        if rng.random() < 0.5 and U.variables(t1):
            c["hv"] = rng.choice(U.variables(t1))
            c["hc"] = U.random_term(rng, 1)
        if rng.random() < 0.5 and U.variables(t2):
            c["cv"] = rng.choice(U.variables(t2))
            c["cc"] = U.random_term(rng, 1)
    return c


def jsonable(case):
    return json.loads(json.dumps(case))


def unjson(x):
    """JSON lists back to the tuple form of harness terms."""
    if isinstance(x, list):
        return tuple(unjson(a) for a in x)
    return x


def case_from_json(d):
    c = dict(d)
    for k in ("t1", "t2", "hc", "cc"):
        if c.get(k) is not None:
            c[k] = unjson(c[k])
    return c


# --------------------------------------------------------------------------------------------- classification
def cycle_kind(system):
    """'none' (no occurs-check situation), 'syntactic' (some variable is paired, by purely structural descent through
    the equations, with a non-variable term that contains it), or 'through bindings' (the cycle only closes through
    bindings made elsewhere)."""
    r, _ = U.ref_unify(system)
    if r != 'occurs':
        return 'none'
    todo = list(system)
    while todo:
        a, b = todo.pop()
        if a[0] == 'v' and b[0] == 'v':
            continue
        if a[0] == 'v' or b[0] == 'v':
            if a[0] != 'v':
                a, b = b, a
            if U.occurs(a[1], b, {}):
                return 'syntactic'
        elif a[0] == 'c' and b[0] == 'c' and U.atom_key(a[1]) == U.atom_key(b[1]) and len(a[2]) == len(b[2]):
            todo.extend(zip(a[2], b[2]))
    return 'through bindings'


def aliasing(system):
    """Does the most general unifier bind a variable to another variable (variable-variable aliasing)?"""
    r, s = U.ref_unify(system)
    return r == 'ok' and any(v[0] == 'v' for v in s.values())


def quoted_alias(case):
    """Does the pair contain the same text once with and once without quotes ('a' vs a, '1' vs 1)?"""
    names = set()
    for t in (case["t1"], case["t2"]):
        for s in U.subterms(t):
            if s[0] in ('a', 'c'):
                names.add(s[1])
            elif s[0] == 'i':
                names.add(str(s[1]))
            elif s[0] == 'f':
                names.add(repr(float(s[1])))
    return any(n != U.atom_key(n) and U.atom_key(n) in names for n in names)


def as_caller(case):
    """The top-level query `?- p(T2)` against `p(T1).` as a call from a clause body: `q(Vs) :- p(T2).`"""
    t1, t2 = case["t1"], case["t2"]
    if case.get("spread") and t1[0] == 'c' and t2[0] == 'c' and t1[1] == t2[1] and len(t1[2]) == len(t2[2]):
        t1, t2 = ('c', 'w', t1[2]), ('c', 'w', t2[2])
    return {"mode": "clause", "t1": t1, "t2": t2}


def attribute(runner, case, verdict):
    """-> (case, verdict, signature). A wrong answer to a top-level query `?- p(T2)` is attributed to the top-level
    (site 'top-level query only') when the same call made from a clause body is answered correctly; otherwise the
    call from the clause body is the reported failure."""
    if case["mode"] == "fact":
        alt = as_caller(case)
        (_, v2, _), = P.run_cases(runner, [alt])
        if v2 is not None:
            case, verdict = alt, v2
    src, qt, system, outs = P.build(case)
    sig = {"kind": verdict[0], "cycle": cycle_kind(system), "quoted_alias": quoted_alias(case),
           "aliasing": aliasing(system)}
    if case["mode"] == "fact":
        sig["site"] = "top-level query only (same call from a clause body is right)"
    else:
        sig["site"] = SITE[case["mode"]]
    return case, verdict, sig


def signature(runner, case, verdict):
    return attribute(runner, case, verdict)[2]


def smaller_terms(t):
    """Candidates for shrinking a term: its arguments, constants, and the term with one argument shrunk."""
    if t[0] == 'c':
        for a in t[2]:
            yield a
        for i, a in enumerate(t[2]):
            for s in smaller_terms(a):
                yield ('c', t[1], t[2][:i] + (s,) + t[2][i + 1:])
    elif t[0] in ('i', 'f', 's') or (t[0] == 'a' and t[1] != 'a'):
        yield ('a', 'a')


def shrink(runner, case, sig, budget=400):
    """Greedy shrinking of t1/t2 (and dropping the extra body goals) keeping the failure signature."""
    def same(c):
        try:
            (_, v, _), = P.run_cases(runner, [c])
        except Exception:
            return False
        return v is not None and signature(runner, c, v) == sig
    cur = dict(case)
    for k in ("hv", "cv"):
        if cur.get(k):
            c2 = {a: b for a, b in cur.items() if a not in (k, k[0] + "c")}
            if same(c2):
                cur = c2
    changed = True
    while changed and budget > 0:
        changed = False
        for k in ("t1", "t2"):
            for s in smaller_terms(cur[k]):
                budget -= 1
                if budget <= 0:
                    break
                c2 = dict(cur)
                c2[k] = s
                if same(c2):
                    cur = c2
                    changed = True
                    break
    return cur


# --------------------------------------------------------------------------------------------- synthetic direct calls
def engine_term(rng, depth, lo, hi, pvar=0.45):
    """Random engine-level term with variables in [lo, hi] (ints) and None."""
    t = U.random_term(rng, depth, vars_=('A', 'B', 'C', 'D'), pvar=pvar)
    names = {}

    def f(v):
        if v not in names:
            names[v] = rng.randint(lo, hi)
        return names[v]
    return U.rename(t, f)


def synth_lines(rng, n):
    """(op line, thunk computing the expected output on the real functions)."""
    import problog.engine_unify as eu
    out = []

    def eng(t):
        return U.to_engine(t, {})

    def guard(f):
        try:
            return f()
        except Exception as e:
            return "ERR " + exc_name(e)

    for _ in range(n):
        r = rng.random()
        if r < 0.35:
            # unify_value on a dictionary reached by a previous unification
            a, b = engine_term(rng, 2, -4, -1), engine_term(rng, 2, -4, -1)
            c, d = engine_term(rng, 2, -4, -1), engine_term(rng, 2, -4, -1)
            sv = {}
            try:
                eu.unify_value(eng(a), eng(b), sv)
            except Exception:
                sv = {}
            line = "uv %s %s %s" % (U.sx(c), U.sx(d), U.sx_dict(sv))

            def th(c=c, d=d, sv=sv):
                sv2 = dict(sv)
                v = eu.unify_value(eng(c), eng(d), sv2)
                return "ok %s %s" % (sx1(v), U.sx_dict(sv2))
            out.append((line, guard(th)))
        elif r < 0.6:
            # unify_value_dc: call argument against a result that is (mostly) an instance of it
            c = engine_term(rng, 2, -3, -1)
            sub = {v: engine_term(rng, 1, -6, -1) for v in range(-3, 0)}
            res = inst(c, sub) if rng.random() < 0.8 else engine_term(rng, 2, -6, -1)
            mv = rng.choice([-3, -6, -8])
            line = "uvdc %s %s %d () ()" % (U.sx(c), U.sx(res), mv)

            def th(c=c, res=res, mv=mv):
                sv = eu._VarTranslateWrapper({}, mv)
                tv = {}
                eu.unify_value_dc(eng(c), eng(res), sv, tv)
                return "ok %d %s %s" % (sv.min_var, U.sx_dict(sv.base), U.sx_dict(tv))
            out.append((line, guard(th)))
        elif r < 0.8:
            # unify_call_return
            k = rng.randint(1, 3)
            call = [engine_term(rng, 2, -3, -1) for _ in range(k)]
            sub = {v: engine_term(rng, 1, -6, -1) for v in range(-3, 0)}
            res = [inst(c, sub) if rng.random() < 0.85 else engine_term(rng, 2, -6, -1) for c in call]
            ctx = [engine_term(rng, 1, -4, -1) if rng.random() < 0.5 else ('v', -rng.randint(1, 4)) for _ in range(rng.randint(1, 4))]
            vt = {None: None}
            for v in range(-3, 0):
                vt[v] = -rng.randint(1, 4)
            mv = min([0] + [x for t in ctx for x in int_vars(t)])
            mask = [bool(int_vars(c)) or U.has_anon(c) for c in call]
            line = "ucr %s %s %s %s %d (%s)" % (U.sx_list(res), U.sx_list(call), U.sx_list(ctx), U.sx_kk(vt), mv,
                                                " ".join("1" if m else "0" for m in mask))

            def th(call=call, res=res, ctx=ctx, vt=vt, mv=mv, mask=mask):
                o = eu.unify_call_return([eng(x) for x in res], [eng(x) for x in call], [eng(x) for x in ctx], dict(vt), mv, mask)
                return "ok %s" % sxl(o)
            out.append((line, guard(th)))
        else:
            # unify_call_head: call arguments against head arguments over slots 0..2
            k = rng.randint(1, 3)
            head = [engine_term(rng, 2, 0, 2) for _ in range(k)]
            call = [U.mutate(rng, rename_slots(h, rng)) if rng.random() < 0.7 else engine_term(rng, 2, -3, -1) for h in head]
            call = [fix_call(c, rng) for c in call]
            ctx = [('_',)] * 3
            line = "uch %s %s %s" % (U.sx_list(call), U.sx_list(head), U.sx_list(ctx))

            def th(call=call, head=head, ctx=ctx):
                c2 = [eng(x) for x in ctx]
                o = eu.unify_call_head([eng(x) for x in call], [eng(x) for x in head], c2)
                return "ok %s %s" % (sxl(c2), sxl(o))
            out.append((line, guard(th)))
    return out


def int_vars(t):
    return [s[1] for s in U.subterms(t) if s[0] == 'v']


def inst(t, sub):
    if t[0] == 'v':
        return sub.get(t[1], t)
    if t[0] == 'c':
        return ('c', t[1], tuple(inst(a, sub) for a in t[2]))
    return t


def rename_slots(t, rng):
    """Head term over slots -> a call term over negative variables."""
    return U.rename(t, lambda v: -(v + 1) if isinstance(v, int) else v)


def fix_call(t, rng):
    """Call arguments only contain negative variables (string names from `mutate` become ints)."""
    m = {'X': -1, 'Y': -2, 'Z': -3}
    return U.rename(t, lambda v: m.get(v, v) if not isinstance(v, int) else (v if v < 0 else -(v + 1)))


# --------------------------------------------------------------------------------------------- model of =/2 at program level
def eq_model_line(case):
    """`eq`/`neq` driver line for `q(V1..Vn) :- T1 op T2` called as `?- q(_,…,_)`: the literal's arguments over the
    clause's slots (every `_` of the body is a slot of its own, clausedb) and the clause context after head
    unification (eval_clause: the call's variables -1..-n, then fresh negative numbers for the other slots)."""
    vs = U.variables(('c', 'p', (case["t1"], case["t2"])))
    slot = {v: i for i, v in enumerate(vs)}
    cnt = [0]
    a1 = U.freshen(case["t1"], cnt, '_S')
    a2 = U.freshen(case["t2"], cnt, '_S')
    for i in range(cnt[0]):
        slot['_S%d' % (i + 1)] = len(vs) + i
    a1 = U.rename(a1, lambda v: slot[v])
    a2 = U.rename(a2, lambda v: slot[v])
    ctx = [('v', -(i + 1)) for i in range(len(slot))]
    return "%s %s %s" % (case["mode"], U.sx_list([a1, a2]), U.sx_list(ctx)), len(vs)


def model_answers(line_out):
    """Driver output of eq/neq -> ('ans', [tuple of terms]) | ('OccursCheck', None) | ('error', name)."""
    if line_out.startswith("ERR "):
        n = line_out[4:]
        return ("OccursCheck", None) if n == "OccursCheck" else ("error", n)
    e = U.parse_sx(line_out)
    return "ans", [tuple(U.term_of_sx(t) for t in ctx) for ctx in e[1]]


# --------------------------------------------------------------------------------------------- run
def run(ctx):
    ctx.rule = ("a case = one (mode, T1, T2[, extra body goals]) program run on the real engine and judged against the "
                "Robinson reference; distinct = distinct program texts; non-trivial = at least one variable and one "
                "compound term in the pair")
    ctx.proof_phase(MODULE, THEOREMS, refutations=REFUTATIONS)
    drv = ctx.driver("Drivers.C14")
    rng = ctx.sub_rng("cases")
    runner = P.Runner()

    # ------------------------------------------------------------------ inputs
    cases = []
    if ctx.replay_in:
        rp = json.load(open(ctx.replay_in))["replay"]
        cases = [case_from_json(rp["case"])]
    else:
        ex_total = ctx.budget(4, 5)
        small = pairs_total(ex_total, U.terms_of_size)
        for mode in ("eq", "neq", "fact", "clause"):
            for a, b in small:
                cases.append(make_case(rng, mode, a, b))
            ctx.count("exhaustive total size<=%d: %s" % (ex_total, mode), len(small))
        # larger pairs from the same universe: a seeded sample
        bigger = []
        for n1, n2 in ((1, 4), (4, 1), (2, 3), (3, 2), (3, 3), (2, 4), (4, 2), (1, 5), (5, 1)):
            A, B = U.terms_of_size(n1), U.terms_of_size(n2)
            for _ in range(ctx.budget(250, 6000)):
                bigger.append((rng.choice(A), rng.choice(B)))
        for a, b in bigger:
            cases.append(make_case(rng, rng.choice(["eq", "neq", "fact", "clause"]), a, b))
        ctx.count("sampled total size 5..6", len(bigger))
        # repeated-variable family: exhaustive over {X,Y,Z,a,f/1,g/2}
        share = pairs_total(ctx.budget(7, 8), share_terms)
        share = [p for p in share if U.size(p[0]) + U.size(p[1]) >= 5]
        if ctx.quick():
            share = rng.sample(share, min(len(share), 5000))
        for a, b in share:
            mode = rng.choice(["eq", "eq", "fact", "clause", "neq"])
            cases.append(make_case(rng, mode, a, b))
        ctx.count("repeated-variable family", len(share))
        nrand = ctx.budget(5000, 80000)
        for _ in range(nrand):
            a, b = random_pair(rng)
            cases.append(make_case(rng, rng.choice(["eq", "eq", "neq", "fact", "clause", "clause"]), a, b))
        ctx.count("random deeper terms", nrand)
        # the known witness and crafted occurs-check situations are always run
        X, Y, Z = ('v', 'X'), ('v', 'Y'), ('v', 'Z')
        f = lambda t: ('c', 'f', (t,))
        g = lambda s, t: ('c', 'g', (s, t))
        crafted = [(g(Z, f(X)), g(X, Y)), (g(X, Y), g(f(Y), f(X))), (g(X, X), g(Y, f(Y))), (X, f(X)),
                   (g(X, f(X)), g(Y, Y)), (g(('i', 1), X), g(X, f(X))), (('i', 1), ('f', 1.0)), (('a', 'a'), ('a', "'a'")),
                   (g(X, g(Y, Z)), g(g(Y, Z), g(f(Z), f(X))))]
        for a, b in crafted:
            for mode in ("eq", "neq", "fact", "clause"):
                c = {"mode": mode, "t1": a, "t2": b}
                if mode == "fact":
                    c["spread"] = True
                cases.append(c)
        # Term.signature strips quotes: the quoted atom '1' and the integer 1 (only as =/2 and \\=/2)
        for mode in ("eq", "neq"):
            cases.append({"mode": mode, "t1": ('a', "'1'"), "t2": ('i', 1)})
        ctx.count("crafted", 4 * len(crafted) + 2)

    # ------------------------------------------------------------------ the real engine, recorded
    rec = Recorder(ctx.budget(4000, 40000))
    rec.install()
    try:
        results = P.run_cases(runner, cases)
    finally:
        rec.uninstall()
    ctx.programs = len(results)

    # ------------------------------------------------------------------ judge (independent Python oracle)
    outcome_count = {}
    failures = []
    for c, v, r in results:
        nontriv = any(s[0] in ('v', '_') for t in (c["t1"], c["t2"]) for s in U.subterms(t)) and \
            (c["t1"][0] == 'c' or c["t2"][0] == 'c')
        ctx.case(P.case_text(c) if nontriv else None, nontrivial=nontriv)
        key = "%s: %s" % (c["mode"], "OccursCheck raised" if r[0] == "OccursCheck" else
                          ("no answer" if r[0] == "ans" and not r[1] else ("answer" if r[0] == "ans" else "error")))
        outcome_count[key] = outcome_count.get(key, 0) + 1
        if v is not None:
            failures.append((c, v, r))
    for k, n in sorted(outcome_count.items()):
        ctx.count("outcome " + k, n)
    for c in cases[:3] + cases[-2:]:
        ctx.sample(P.case_text(c))

    reported = {}
    for c, v, r in failures:
        c, v, sig = attribute(runner, c, v)
        key = json.dumps(sig, sort_keys=True)
        reported.setdefault(key, []).append((c, v, sig))
    for key, lst in sorted(reported.items()):
        c, v, sig = min(lst, key=lambda x: U.size(x[0]["t1"]) + U.size(x[0]["t2"]))
        small = shrink(runner, c, sig) if not ctx.replay_in else c
        (_, v2, _), = P.run_cases(runner, [small])
        if v2 is None or signature(runner, small, v2) != sig:
            small, v2 = c, v
        else:
            small, v2, _ = attribute(runner, small, v2)
        what = "%s [%s; cycle=%s]: %s — %s" % (v2[0], sig["site"], sig["cycle"], P.case_text(small), v2[1])
        status = ctx.fail(what, {"case": jsonable(small), "program": P.case_text(small)}, sig)
        if status == "known":
            for _ in lst[1:]:
                ctx.fail(what, {"case": jsonable(small)}, sig)  # counts the further occurrences of the known finding
        ctx.count("failure signature %s" % key, len(lst))

    # ------------------------------------------------------------------ Python reference = proved Lean mguFuel
    ok_corr = drv is not None
    if drv is not None:
        lines, expect = [], []
        names = {}

        def num(v):
            if v not in names:
                names[v] = len(names) + 1
            return names[v]
        seen = set()
        for c in cases:
            src, qt, system, outs = P.build(c)
            names.clear()
            sysn = [(canon_atoms(U.rename(a, num)), canon_atoms(U.rename(b, num))) for a, b in system]
            outn = [canon_atoms(U.rename(o, num)) for o in outs]
            line = "mgu %s (%s)" % (U.sx_list(outn), " ".join("(%s %s)" % (U.sx(a), U.sx(b)) for a, b in sysn))
            if line in seen:
                continue
            seen.add(line)
            lines.append(line)
            r, s = U.ref_unify(sysn)
            expect.append((r, U.canon(tuple(U.resolve(o, s) for o in outn)) if r == "ok" else None))
        outs_ = drv.run(lines)
        fuel_out = 0
        ref_diff = None
        for line, (r, inst_), o in zip(lines, expect, outs_):
            if o == "fuel":
                fuel_out += 1
                continue
            if o in ("clash", "occurs"):
                good = r in ("clash", "occurs")
            else:
                e = U.parse_sx(o)
                got = U.canon(tuple(U.term_of_sx(t) for t in e[2]))
                good = r == "ok" and got == inst_
            if not good and ref_diff is None:
                ref_diff = (line, r, o)
        ctx.obligation("Lean mguFuel: fuel (10^4) not exhausted on any of %d systems" % len(lines), fuel_out == 0,
                       "%d exhausted" % fuel_out)
        ctx.obligation("Python reference unifier = proved Lean mguFuel on %d systems (outcome and instance)" % len(lines),
                       ref_diff is None, "" if ref_diff is None else "first difference: %s" % (ref_diff,))
        if ref_diff is not None:
            ctx.disagree("reference oracle vs Lean mguFuel", str(ref_diff))
        ctx.extra["mgu_systems"] = len(lines)
        ctx.extra["mgu_fuel_exhausted"] = fuel_out

        # -------------------------------------------------------------- (i) recorded real calls, exact
        rl = list(rec.seen.items())
        outs_ = drv.run([l for l, _ in rl])
        first = None
        nfuel = 0
        for (line, exp), got in zip(rl, outs_):
            ctx.count("recorded call " + line.split()[0])
            if "OutOfFuel" in got:
                nfuel += 1
            if got != exp and first is None:
                first = (line, exp, got)
        if first:
            ok_corr = False
            ctx.disagree("model vs recorded call of the real function", "input %s: implementation %s, model %s" % first)
        ctx.obligation("correspondence (i): model = real function on %d recorded engine calls" % len(rl), first is None,
                       "" if first is None else str(first)[:300])

        # -------------------------------------------------------------- (ii) synthetic direct calls, exact
        srng = ctx.sub_rng("synthetic")
        syn = synth_lines(srng, ctx.budget(6000, 60000))
        # plus unify_value with an empty dictionary on the exhaustive pairs
        import problog.engine_unify as eu
        for a, b in pairs_total(ctx.budget(4, 5), U.terms_of_size):
            ea, eb_ = U.to_engine(a, {'X': -1, 'Y': -2, 'Z': -3}), U.to_engine(b, {'X': -1, 'Y': -2, 'Z': -3})
            sv = {}
            try:
                v = eu.unify_value(ea, eb_, sv)
                exp = "ok %s %s" % (sx1(v), U.sx_dict(sv))
            except Exception as e:
                exp = "ERR " + exc_name(e)
            syn.append(("uv %s %s ()" % (sx1(ea), sx1(eb_)), exp))
        outs_ = drv.run([l for l, _ in syn])
        first = None
        for (line, exp), got in zip(syn, outs_):
            ctx.count("synthetic call " + line.split()[0])
            ctx.count("synthetic result " + ("ok" if exp.startswith("ok") else exp))
            if got != exp and first is None:
                first = (line, exp, got)
        if first:
            ok_corr = False
            ctx.disagree("model vs real function (synthetic input)", "input %s: implementation %s, model %s" % first)
        ctx.obligation("correspondence (ii): model = real function on %d synthetic calls" % len(syn), first is None,
                       "" if first is None else str(first)[:300])

        # -------------------------------------------------------------- (iii) eqBuiltin/neqBuiltin vs program-level answer
        ql = [(c, r) for c, v, r in results if c["mode"] in ("eq", "neq") and r[0] != "error"]
        mlines = [eq_model_line(c) for c, _ in ql]
        outs_ = drv.run([l for l, _ in mlines])
        first = None
        for (c, r), (_, nv), o in zip(ql, mlines, outs_):
            m = model_answers(o)
            if m[0] == "ans":
                m = ("ans", [a[:nv] for a in m[1]])  # the answer is the head q(V1..Vn): the first n slots
            if c["mode"] == "neq":
                same = (m[0] == r[0]) and (m[0] != "ans" or bool(m[1]) == bool(r[1]))
            else:
                same = (m[0] == r[0]) and (m[0] != "ans" or [U.canon(a) for a in m[1]] == [U.canon(a) for a in r[1]])
            if not same and first is None:
                first = (P.case_text(c), r, o)
        if first:
            ok_corr = False
            ctx.disagree("model of =/2, \\=/2 as body literals vs engine answer", "%s: engine %s, model %s" % first)
        ctx.obligation("correspondence (iii): eqBuiltin/neqBuiltin model = engine answer (up to renaming) on %d programs" % len(ql),
                       first is None, "" if first is None else str(first)[:300])
        ctx.extra["model_out_of_fuel"] = nfuel
    ctx.obligation("correspondence: Lean model tied to engine_unify.py", ok_corr)
    return ctx.finish("proof")


def canon_atoms(t):
    """Quoted atoms that do not need their quotes lose them (the reference compares functor texts)."""
    if t[0] == 'a':
        return ('a', U.atom_key(t[1]))
    if t[0] == 'c':
        return ('c', U.atom_key(t[1]), tuple(canon_atoms(a) for a in t[2]))
    return t
