"""C04 — documented arbitrary-order (unbuffered) evaluation agrees with default.

Engine variants: StackBasedEngine(unbuffered=True), (unbuffered=True, rc_first=True) and the RandomOrderEngine of
docs/source/engine.rst (seeded). Every run is compared with the Lean specification `Sem` (so the accept/reject decision
and the numbers of all variants are compared with one value)."""
import random

import cfgprop
import spine

MODULE = "ProbLogProofs.Properties.C04"
THEOREMS = ["ProbLogProofs.C04.C04_spec_base"]

MANIFEST = {
    "level": "other",
    "technique": "engine configurations (unbuffered, rc_first, documented random choice-point order) on generated programs, "
                 "each compared with the Lean specification Sem",
    "text": "Partial: configurations and seeded random orders are explored, not proved; the unbuffered engine's cycle "
            "handling is not modelled. Lean covers the specification and the stages downstream of the grounder.",
    "note": "Trusted: harness. Known findings (unbuffered modes raising IndirectCallCycleError/InvalidEngineState, F1) are "
            "matched by raise site and reported as KNOWN-FINDING. Inside their region a pinned corpus "
            "(corpus/C04/unbuffered_agree.json: programs with recursion + negation / several recursive predicates / ADs / "
            "complementary proofs on which every variant agreed with the specification when it was built) is replayed on "
            "every run; a changed outcome there is reported as a corpus-regression and is never matched by a finding.",
    "design_ref": "DESIGN.md §6 C04",
}

N = [3]


def variants(P, seed):
    rng = random.Random(seed)
    src = spine.to_src(P)
    out = [("default", src, {}),
           ("unbuffered", src, {"engine": {"unbuffered": True}}),
           ("unbuffered+rc_first", src, {"engine": {"unbuffered": True, "rc_first": True}})]
    for k in range(N[0]):
        out.append(("random_order#%d" % k, src, {"random_order": rng.randrange(1 << 30)}))
    return out


def run(ctx):
    N[0] = ctx.budget(3, 15)
    # pinned regression corpus (tools/gen_c04_corpus.py): programs inside the region of the known findings (recursion with
    # a negated goal in the recursive clause, recursion through several predicates, annotated disjunctions, complementary
    # proofs `p :- a. p :- \\+a.`) on which EVERY variant of the tree gave the specification's answer when the corpus was
    # built. Replayed first under the same variants; a changed outcome is a corpus-regression, which no finding matches
    # (the known findings' signatures - exception class + raise site + mode - would otherwise absorb a new defect that
    # ends in the same exception).
    import explore_util
    drv = ctx.driver("Drivers.Spine")
    if drv is not None:
        if explore_util.replay_case(ctx, drv, variants):
            ctx.proof_phase(MODULE, THEOREMS)
            return ctx.finish("other", "replay of a corpus regression")
        if not ctx.replay_in:
            explore_util.corpus_replay(ctx, drv, explore_util.corpus_path("C04", "unbuffered_agree.json"), variants,
                                       "region of the unbuffered-mode findings")
    ctx.rule = ("generated programs x {default, unbuffered, unbuffered+rc_first, seeded RandomOrderEngine}; non-trivial = at "
                "least one query instance and more than one world")
    return cfgprop.run(ctx, MODULE, THEOREMS, variants, nq=50, nt=700, level="other",
                       explanation="Engine configurations are explored, not proved; each is compared with the Lean "
                                   "specification value.")
