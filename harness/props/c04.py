"""C04 — documented arbitrary-order (unbuffered) evaluation agrees with default.

Engine variants: StackBasedEngine(unbuffered=True), (unbuffered=True, rc_first=True) and the RandomOrderEngine of
docs/source/engine.rst (seeded). Every run is compared with the Lean specification `Sem` (so the accept/reject decision
and the numbers of all variants are compared with one value)."""
import random

import cfgprop
import spine

MODULE = "ProbLogProofs.Properties.C04"
THEOREMS = ["ProbLogProofs.C04.C04_spec_base"]

MANIFEST = {
    "level": "other",
    "technique": "engine configurations (unbuffered, rc_first, documented random choice-point order) on generated programs, "
                 "each compared with the Lean specification Sem",
    "text": "Partial: configurations and seeded random orders are explored, not proved; the unbuffered engine's cycle "
            "handling is not modelled. Lean covers the specification and the stages downstream of the grounder.",
    "note": "Trusted: harness. Known findings (unbuffered modes raising IndirectCallCycleError/InvalidEngineState, F1) are "
            "matched by raise site and reported as KNOWN-FINDING.",
    "design_ref": "DESIGN.md §6 C04",
}

N = [3]


def variants(P, seed):
    rng = random.Random(seed)
    src = spine.to_src(P)
    out = [("default", src, {}),
           ("unbuffered", src, {"engine": {"unbuffered": True}}),
           ("unbuffered+rc_first", src, {"engine": {"unbuffered": True, "rc_first": True}})]
    for k in range(N[0]):
        out.append(("random_order#%d" % k, src, {"random_order": rng.randrange(1 << 30)}))
    return out


def run(ctx):
    N[0] = ctx.budget(3, 15)
    ctx.rule = ("generated programs x {default, unbuffered, unbuffered+rc_first, seeded RandomOrderEngine}; non-trivial = at "
                "least one query instance and more than one world")
    return cfgprop.run(ctx, MODULE, THEOREMS, variants, nq=50, nt=700, level="other",
                       explanation="Engine configurations are explored, not proved; each is compared with the Lean "
                                   "specification value.")
