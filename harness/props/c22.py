"""C22 — sampling draws from the program's distribution.

Tie: `random.random` is replaced (in the harness process) by a recorded stream of uniforms; every call of the real
`SampledFormula.add_atom` (identifier, probability, group, returned node, uniforms consumed) and the printed
probability are compared with the compiled Lean model (lean/ProbLogModel/Tasks/Sample.lean) replaying the same calls
on the same stream (exact).  Search oracle (independent of the Lean model): every sample satisfies the evidence, and a
seeded Hoeffding test (false-alarm < 1e-9 per query) of the frequencies of `sample(...)` / `estimate(...)` against
brute-force conditional probabilities (harness/tasks_util.py)."""
import contextlib
import io
import json
import math
import random
import re
from fractions import Fraction as F

import lib
import tasks_util as tu

MODULE = "ProbLogProofs.Properties.C22"
THEOREMS = [
    "ProbLogProofs.C22.C22_fact_threshold",
    "ProbLogProofs.C22.C22_fact_memo",
    "ProbLogProofs.C22.C22_ad_threshold",
    "ProbLogProofs.C22.C22_ad_marginal",
    "ProbLogProofs.C22.C22_ad_box_volume",
    "ProbLogProofs.C22.C22_printed_prob_ad",
    "ProbLogProofs.C22.C22_printed_prob",
    "ProbLogProofs.C22.C22_rejection",
    "ProbLogProofs.C22.C22_accepted_satisfies_evidence",
]

MANIFEST = {
    "level": "other",
    "technique": "Lean 4 theorems about a hand-written model of SampledFormula.add_atom / compute_probability / the "
                 "rejection loop as a function of the stream of uniforms + exact replay of recorded uniform streams "
                 "through the real sampler and the compiled model + seeded Hoeffding frequency test against brute force",
    "text": "Lean theorems: a fact is true iff u < p; the heads of an annotated disjunction are chosen on boxes of "
            "uniforms whose volume (product of interval lengths) telescopes to p_i, none: 1 - sum p; the printed "
            "probability is the product of the probabilities of the choices made; the rejection sampler on a finite "
            "distribution returns the conditional law. Every run replays recorded uniform streams through the real "
            "add_atom (monkey-patched random.random) and through the compiled model and compares every sampled value, "
            "the number of uniforms consumed and the printed probability; every sample is checked against the "
            "evidence; frequencies of sample()/estimate() are compared with brute-force conditional probabilities "
            "with a Hoeffding bound at false-alarm probability 1e-9 per query.",
    "note": "Level 'other': partial by nature. Proved: the sampler as a function of the uniform stream draws each choice "
            "with the right interval length. Not proved (outside the model): that random.random() yields independent "
            "uniforms, the law of large numbers (convergence of frequencies), float rounding in p/r and r-p, and the "
            "engine's evaluation of the derived atoms of a sampled world (checked only statistically).",
    "design_ref": "DESIGN.md §6 C22",
}

DELTA = 1e-9


def hoeffding_eps(n):
    return math.sqrt(math.log(2.0 / DELTA) / (2.0 * n))


# ---------------------------------------------------------------------------------------------------- instrumentation
class Recorder(object):
    """Replaces random.random by a recorded stream and logs every SampledFormula.add_atom call."""

    def __init__(self, stream):
        self.stream = stream
        self.pos = 0
        self.instances = []

    def __enter__(self):
        from problog.tasks import sample as S
        self.S = S
        self.orig_random = random.random
        self.orig_add = S.SampledFormula.add_atom
        self.orig_init = S.SampledFormula.__init__
        rec = self

        def fake_random():
            if rec.pos >= len(rec.stream):
                raise lib.Infra("recorded uniform stream exhausted")
            v = rec.stream[rec.pos]
            rec.pos += 1
            return v

        def init(self_, *a, **k):
            rec.orig_init(self_, *a, **k)
            self_._verif = dict(start=rec.pos, ops=[], near=False)
            rec.instances.append(self_)

        def add_atom(self_, identifier, probability, group=None, *a, **k):
            before = rec.pos
            r_before = None
            if group is not None and isinstance(identifier, tuple):
                r_before = self_.groups.get(identifier[:-1], 1.0)
            res = rec.orig_add(self_, identifier, probability, group, *a, **k)
            try:
                p = float(probability)
            except Exception:
                p = None
            if rec.pos > before and p is not None:
                u = rec.stream[before]
                if group is not None and r_before not in (None, 1.0) and abs(u - p / r_before) < 1e-12:
                    self_._verif["near"] = True        # float rounding of p/r decides: outside the exact model
            self_._verif["ops"].append((identifier, p, group, res, rec.pos))
            return res

        self.orig_evid = getattr(S.SampledFormula, "add_evidence_atom", None)

        def add_evidence_atom(self_, identifier, value, probability, group=None, *a, **k):
            res = rec.orig_evid(self_, identifier, value, probability, group, *a, **k)
            try:
                p = float(probability)
            except Exception:
                p = 0.0
            self_._verif["ops"].append((identifier, p, group, ("evid", bool(value)), rec.pos))
            return res

        random.random = fake_random
        S.SampledFormula.add_atom = add_atom
        S.SampledFormula.__init__ = init
        if self.orig_evid is not None:
            S.SampledFormula.add_evidence_atom = add_evidence_atom
        return self

    def __exit__(self, *a):
        random.random = self.orig_random
        self.S.SampledFormula.add_atom = self.orig_add
        self.S.SampledFormula.__init__ = self.orig_init
        if self.orig_evid is not None:
            self.S.SampledFormula.add_evidence_atom = self.orig_evid


def replay_case(src, stream, nsamples, propagate):
    """Run the real sampler on a recorded stream. Returns a list of per-attempt records."""
    from problog.program import PrologString
    from problog.tasks import sample as S
    out = []
    with Recorder(stream) as rec:
        gen = S.sample(PrologString(src), n=nsamples, format="str", propagate_evidence=propagate, with_probability=True)
        texts = []
        try:
            for t in gen:
                texts.append((t, len(rec.instances)))
        except lib.Infra:
            pass                                        # stream exhausted: keep what was completed
        accepted = {k - 1: t for t, k in texts}
        for idx, inst in enumerate(rec.instances):
            v = inst._verif
            if idx not in accepted and idx == len(rec.instances) - 1 and rec.pos >= len(stream):
                continue                                # the attempt during which the stream ran out
            end = v["ops"][-1][4] if v["ops"] else v["start"]
            if idx not in accepted:
                inst.compute_probability()              # the real method; rejected samples are not printed
            out.append(dict(start=v["start"], end=end, ops=v["ops"], near=v["near"], prob=inst.probability,
                            text=accepted.get(idx), accepted=idx in accepted))
    return out


def model_lines(rec, stream):
    """Protocol lines replaying one attempt, and the expected outputs from the real run."""
    ids, origins = {}, {}
    us = stream[rec["start"]:rec["end"]] + [0.5, 0.5]
    lines = ["begin (" + " ".join(lib.rat(u) for u in us) + ")"]
    exp = ["ok"]
    for identifier, p, group, res, pos in rec["ops"]:
        if p is None:
            return None
        val = "true" if res == 0 else "false"
        evid = isinstance(res, tuple) and res[0] == "evid"
        if group is None or not isinstance(identifier, tuple):
            k = ids.setdefault(repr(identifier), len(ids))
            if evid:
                lines.append("evid fact %d %d %s" % (k, 1 if res[1] else 0, lib.rat(p)))
            else:
                lines.append("fact %d %s" % (k, lib.rat(p)))
        else:
            o = origins.setdefault(repr(identifier[:-1]), len(origins))
            if evid:
                lines.append("evid choice %d %d %d %s" % (o, identifier[-1], 1 if res[1] else 0, lib.rat(p)))
            else:
                lines.append("choice %d %d %s" % (o, identifier[-1], lib.rat(p)))
        exp.append(("ok %d" if evid else val + " %d") % (pos - rec["start"]))
    lines.append("end")
    exp.append(("prob", rec["prob"], rec["end"] - rec["start"]))
    return lines, exp


# ---------------------------------------------------------------------------------------------------- generators
def gen_sample_program(rng):
    """Program with queries and (mostly satisfiable) evidence; evidence atoms are queried as well."""
    P = tu.gen_program(rng, want_queries=True)
    # evidence that holds in a random world (so the acceptance rate is not tiny)
    rules, groups, _, _ = tu.reference(P)
    preds, consts = P["preds"], P["consts"]
    evs = []
    if rng.random() < 0.65:
        chosen = set()
        for g in groups:
            k = rng.randrange(len(g) + 1)
            if k < len(g):
                chosen.add(g[k][1])
        m = tu.lfp(rules, preds, chosen)
        import itertools
        defined = set(r[0][0] for r in rules)
        atoms = [(p, a) for p in sorted(defined) for a in itertools.product(consts, repeat=preds[p][0])]
        for _ in range(rng.randint(1, 2)):
            a = rng.choice(atoms)
            if all(a != b for b, _ in evs):
                evs.append((a, a in m))
    P["evidence"] = evs
    for a, _ in evs:
        if a not in P["queries"]:
            P["queries"].append(a)
    return P


def witness_program():
    """DESIGN §9 C22: `0.3::h0(b); 0.2::h1(c); 0.3::h2(c). evidence(\\+h2(c)).`"""
    return dict(consts=["b", "c"], preds={"h0": (1, 0), "h1": (1, 0), "h2": (1, 0)}, utilities=[],
                stmts=[("ad", [(F(3, 10), ("h0", ("b",))), (F(2, 10), ("h1", ("c",))), (F(3, 10), ("h2", ("c",)))], [])],
                queries=[("h0", ("b",)), ("h1", ("c",)), ("h2", ("c",))], evidence=[(("h2", ("c",)), False)])


def ad_head_fixed_false(src):
    """Structural condition of the known finding, computed by the real init_db: evidence propagation fixed an AD head
    to false."""
    from problog.program import PrologString
    from problog.tasks import sample as S
    try:
        eng = S.init_engine()
        db, evidence_facts, ev_target = S.init_db(eng, PrologString(src), True)
    except Exception:
        return False
    return any(f[1] == 0.0 and len(f) > 2 and f[2] is not None for f in evidence_facts)


# ---------------------------------------------------------------------------------------------------- frequency test
def freq_case(P, n, propagate, seed, ctx_to=15):
    """Seeded run of sample()/estimate(); returns (failures, info). A failure = (what, signature)."""
    from problog.program import PrologString
    from problog.tasks import sample as S
    ref = tu.semantics(P)
    if ref is None or ref == "inconsistent":
        return None, "oracle"
    exact, nworlds, Z = ref
    if float(Z) < 0.08:
        return None, "low-acceptance"
    src = tu.to_src(P)
    eps = hoeffding_eps(n)
    fails = []
    state = random.getstate()
    try:
        random.seed(seed)
        counts = {k: 0 for k in exact}
        ev = {tu.atom_s(a): v for a, v in P["evidence"]}
        got = 0
        try:
            for d in tu.with_timeout(ctx_to, lambda: list(S.sample(PrologString(src), n=n, format="dict",
                                                               propagate_evidence=propagate))):
                got += 1
                dd = {str(k): v for k, v in d.items()}
                for a, v in ev.items():
                    if bool(dd.get(a, False)) != v:
                        fails.append(("sample violates the evidence: %s is %s in the sample %s" % (a, dd.get(a, False), dd),
                                      dict(kind="evidence-violated", propagate_evidence=propagate)))
                        break
                for k in counts:
                    if dd.get(k, False) is True:
                        counts[k] += 1
                if fails:
                    break
        except tu.CaseTimeout:
            return None, "timeout"
        except Exception as e:
            if type(e).__name__ in ("NegativeCycle", "AssertionError", "UnknownClause", "ValueError"):
                return None, "engine:" + type(e).__name__
            fails.append(("sample raised %s: %s" % (type(e).__name__, str(e)[:80]),
                          dict(kind="exception", exc=type(e).__name__, propagate_evidence=propagate)))
            return fails, "exc"
        if not fails:
            for k, c in sorted(counts.items()):
                f = c / float(got)
                if abs(f - float(exact[k])) > eps:
                    fails.append(("sample(): frequency of %s is %.4f over %d samples, exact conditional probability %.4f "
                                  "(Hoeffding radius %.4f at 1e-9)" % (k, f, got, float(exact[k]), eps),
                                  dict(kind="hoeffding", api="sample", propagate_evidence=propagate,
                                       ad_head_fixed_false=ad_head_fixed_false(src) if propagate else False)))
                    break
        # estimate()
        random.seed(seed + 1)
        buf = io.StringIO()
        try:
            with contextlib.redirect_stdout(buf):
                est = tu.with_timeout(ctx_to, S.estimate, PrologString(src), n=n, propagate_evidence=propagate)
            est = {str(k): v for k, v in est.items()}
            for k in sorted(exact):
                if abs(est.get(k, 0.0) - float(exact[k])) > eps:
                    fails.append(("estimate(): %s estimated %.4f from %d samples, exact conditional probability %.4f "
                                  "(Hoeffding radius %.4f at 1e-9)" % (k, est.get(k, 0.0), n, float(exact[k]), eps),
                                  dict(kind="hoeffding", api="estimate", propagate_evidence=propagate,
                                       ad_head_fixed_false=ad_head_fixed_false(src) if propagate else False)))
                    break
        except tu.CaseTimeout:
            pass
        except Exception as e:
            if type(e).__name__ not in ("NegativeCycle", "AssertionError", "UnknownClause", "ValueError"):
                fails.append(("estimate raised %s: %s" % (type(e).__name__, str(e)[:80]),
                              dict(kind="exception", exc=type(e).__name__, propagate_evidence=propagate)))
    finally:
        random.setstate(state)
    return fails, "ok"


# ---------------------------------------------------------------------------------------------------- run
def run(ctx):
    import time
    ctx.rule = ("replay stream: a case = one sampling attempt (one SampledFormula) of a generated program (facts, ADs with "
                "and without body, rules, negation, evidence) on a recorded uniform stream incl. boundary values u = p; "
                "frequency stream: a case = one program x mode, N seeded samples; distinct = distinct (program, stream "
                "slice); non-trivial = at least one uniform consumed")
    ctx.proof_phase(MODULE, THEOREMS)
    drv = ctx.driver("Drivers.C22")
    tmax = ctx.budget(35, 600)
    fails = {}

    def add_fail(what, sig, replay):
        key = json.dumps(sig, sort_keys=True)
        if key not in fails:
            fails[key] = (what, sig, replay)

    # ------------------------------------------------------------------ A: exact replay
    lines, expect, owner = [], [], []
    nprog = ctx.budget(60, 1500)
    progs = []
    if ctx.replay_in:
        rp = json.load(open(ctx.replay_in))["replay"]
        progs = [(tu.P_from_json(rp["program"]), rp.get("stream_seed", "replay"), rp.get("propagate", False))]
    else:
        progs.append((witness_program(), "witness", False))
        progs.append((witness_program(), "witness", True))
        for i in range(nprog):
            rng = random.Random("%s:%d:replay:%d" % (ctx.pid, ctx.seed, i))
            progs.append((gen_sample_program(rng), "%s:%d:stream:%d" % (ctx.pid, ctx.seed, i), rng.random() < 0.3))
    for P, sseed, propagate in progs:
        if time.time() - ctx.t_work > tmax and not ctx.replay_in:
            ctx.count("not-run:time-budget")
            continue
        src = tu.to_src(P)
        srng = random.Random(sseed)
        probs = [float(s[1]) for s in P["stmts"] if s[0] in ("pf", "prule")] + \
                [float(p) for s in P["stmts"] if s[0] == "ad" for p, _ in s[1]]
        stream = []
        for _ in range(400):
            r = srng.random()
            if r < 0.12 and probs:
                stream.append(srng.choice(probs))           # boundary: u == p exactly
            elif r < 0.15:
                stream.append(0.0)
            else:
                stream.append(srng.random())
        try:
            recs = tu.with_timeout(5, replay_case, src, stream, 4, propagate)
        except tu.CaseTimeout:
            ctx.count("skip:replay:timeout")
            continue
        except lib.Infra:
            raise
        except Exception as e:
            if type(e).__name__ in ("NegativeCycle", "AssertionError", "UnknownClause", "ValueError",
                                    "IndirectCallCycleError", "InvalidEngineState"):
                ctx.count("skip:replay:engine:" + type(e).__name__)
                continue
            add_fail("sample raised %s: %s | %s" % (type(e).__name__, str(e)[:80], src.replace("\n", " ")),
                     dict(kind="exception", exc=type(e).__name__, propagate_evidence=propagate),
                     dict(program=tu.P_to_json(P), source=src, propagate=propagate, stream_seed=sseed))
            continue
        ev = {tu.atom_s(a): v for a, v in P["evidence"]}
        for rec in recs:
            used = rec["end"] - rec["start"]
            ctx.case(src + str(sseed) + str(rec["start"]), nontrivial=used > 0)
            ctx.count("replay:" + ("accepted" if rec["accepted"] else "rejected") + (":propagate" if propagate else ""))
            ctx.count("replay:uniforms=%d" % min(used, 8))
            if rec["near"]:
                ctx.count("replay:skipped-float-boundary")
                continue
            # spec: an accepted sample satisfies the evidence; printed probability matches the state's
            if rec["accepted"] and rec["text"] is not None:
                shown = set(l.rstrip(".") for l in rec["text"].split("\n") if l and not l.startswith("%"))
                for a, v in ev.items():
                    if (a in shown) != v:
                        add_fail("accepted sample violates the evidence (%s should be %s): %s | %s" % (
                            a, v, sorted(shown), src.replace("\n", " ")),
                            dict(kind="evidence-violated", propagate_evidence=propagate),
                            dict(program=tu.P_to_json(P), source=src, propagate=propagate, stream_seed=sseed))
                m = re.search(r"% Probability: (\S+)", rec["text"])
                if not m or not lib.close(float(m.group(1)), rec["prob"], 1e-6):
                    add_fail("printed probability %s differs from the sampler's state %r" % (m and m.group(1), rec["prob"]),
                             dict(kind="printed-probability"),
                             dict(program=tu.P_to_json(P), source=src, propagate=propagate, stream_seed=sseed))
            ml = model_lines(rec, stream)
            if ml is None:
                continue
            for l, e in zip(*ml):
                lines.append(l)
                expect.append(e)
                owner.append((src, propagate, sseed))
        ctx.sample({"program": src.split("\n")[:6], "attempts": len(recs), "propagate_evidence": propagate})
    first_diff = None
    if drv is not None and lines:
        outs = drv.run(lines)
        for o, e, l, ow in zip(outs, expect, lines, owner):
            if isinstance(e, tuple):
                toks = o.split()
                same = len(toks) == 2 and lib.close(lib.parse_rat(toks[0]), e[1], 1e-9) and int(toks[1]) == e[2]
            else:
                same = (o == e)
            if not same and first_diff is None:
                first_diff = (l[:80], o[:60], str(e)[:60], ow[0].replace("\n", " ")[:300], ow[1])
    if first_diff:
        ctx.disagree("Sample model vs SampledFormula.add_atom", "op `%s`: model %s, implementation %s; program %s "
                     "(propagate_evidence=%s)" % first_diff)
    ctx.obligation("correspondence: model = implementation on %d add_atom calls / printed probabilities" % len(lines),
                   first_diff is None and drv is not None, "" if first_diff is None else str(first_diff)[:300])

    # ------------------------------------------------------------------ B: evidence + Hoeffding frequency test
    if not ctx.replay_in:
        nfreq = ctx.budget(5, 60)
        N = ctx.budget(1000, 6000)
        tmax2 = ctx.budget(70, 1100)
        todo = [(witness_program(), True), (witness_program(), False)]
        k = 0
        while len(todo) < nfreq + 2 and k < 200:
            P = gen_sample_program(random.Random("%s:%d:freq:%d" % (ctx.pid, ctx.seed, k)))
            k += 1
            todo.append((P, len(todo) % 3 == 0))
        for j, (P, propagate) in enumerate(todo):
            if time.time() - ctx.t_work > tmax2:
                ctx.count("not-run:time-budget")
                continue
            fl, info = freq_case(P, N, propagate, 1000 * ctx.seed + j)
            ctx.count("freq:%s%s" % (info, ":propagate" if propagate else ""))
            if fl is None:
                continue
            ctx.case("freq" + tu.to_src(P) + str(propagate), nontrivial=True)
            for what, sig in fl:
                add_fail(what + " | " + tu.to_src(P).replace("\n", " "), sig,
                         dict(program=tu.P_to_json(P), source=tu.to_src(P), propagate=propagate, frequency_test=True,
                              seed=1000 * ctx.seed + j, n=N))
    else:
        rp = json.load(open(ctx.replay_in))["replay"]
        if rp.get("frequency_test"):
            P = tu.P_from_json(rp["program"])
            fl, info = freq_case(P, rp["n"], rp["propagate"], rp["seed"])
            for what, sig in fl or []:
                add_fail(what + " | " + tu.to_src(P).replace("\n", " "), sig, rp)
    for key, (what, sig, replay) in fails.items():
        ctx.fail(what, replay, sig)
    return ctx.finish("other", explanation=MANIFEST["note"])
