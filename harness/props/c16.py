"""C16 — arithmetic and term-inspection builtins match Yap/SWI semantics.

Tie of the Lean side to the code: (1) *regeneration* — harness/py2lean_arith re-translates
problog/logic.py `_arithmetic_functions` (and the exception mapping of `compute_function`) into
lean/ProbLogModel/Generated/ArithTable.lean on every run, the theorems are about those generated definitions;
(2) *translator cross-check* — every generated definition is executed in the compiled Lean driver and the Python
lambda in-process on a grid; (3) *correspondence* of the hand models (compute_function on expression trees, the
builtins of lean/ProbLogModel/Builtins.lean, the mode table) with the real engine.
Failing-input search independent of Lean: harness/c16_oracle.py (ISO / SWI / YAP reading in Python) against
`X is Expr` through PrologString + engine, `Term.compute_value`, and engine queries of the builtins."""
import ast
import json
import math
import os
from fractions import Fraction

import lib
from lib import Infra
import c16_oracle as O
import py2lean_arith

MODULE = "ProbLogProofs.Properties.C16"
P = "ProbLogProofs.C16."
THEOREMS = [P + t for t in [
    "C16_intdiv", "C16_intdiv_error", "C16_div", "C16_mod", "C16_mod_sign", "C16_rem_is_mod", "C16_rem_guarded",
    "C16_plus", "C16_minus", "C16_times", "C16_neg", "C16_abs", "C16_sign", "C16_min", "C16_max",
    "C16_shr", "C16_shl", "C16_bitnot", "C16_bitand", "C16_bitor", "C16_xor", "C16_xor_aliases",
    "C16_pow", "C16_caret", "C16_slash_int", "C16_slash_int_exact", "C16_int_roundings_id",
    "C16_sign_float", "C16_float_integer_part", "C16_truncate_float", "C16_integer_float_yap", "C16_round_float_yap",
    "C16_floor_float", "C16_ceiling_float",
    "C16_between_enum", "C16_between_check", "C16_succ", "C16_plus3", "C16_length_fixed", "C16_length_open",
    "C16_functor_decompose", "C16_functor_construct", "C16_arg", "C16_univ_decompose", "C16_univ_roundtrip",
    "C16_typetests",
]]
REFUTATIONS = [P + t for t in ["C16_rem_refuted", "C16_is_list_refuted", "C16_slash_int_not_swi"]]

MANIFEST = {
    "level": "proof",
    "technique": "Lean 4 theorems about definitions regenerated from logic.py's arithmetic table by a Python-ast→Lean "
                 "translator (cross-checked on a grid every run) and about hand models of the builtins; independent "
                 "ISO/SWI/YAP oracle in Python against the real engine",
    "text": "For every integer entry of _arithmetic_functions the generated Lean definition equals the ISO 13211-1 / "
            "SWI-7 / YAP-6 function (// truncates, div floors, mod sign of divisor, >> arithmetic, two's-complement bit "
            "operations, ^/** on non-negative exponents, abs, sign, min, max), with division by zero an error; rem = "
            "mod is the documented deviation (refutation of ISO rem proved, equality under the exact guard). "
            "between/3 succ/2 plus/3 length/2 functor/3 arg/3 =../2 and the type tests: model solutions equal the "
            "Prolog solutions. Each run regenerates the table from the source, runs model and implementation on "
            "-8..8, ±2^62, ±2^70, dyadic floats, random expression trees and every call mode, and compares the real "
            "engine with an independent Python oracle.",
    "note": "Floats are exact rationals in the model; float theorems are about that abstraction and model-vs-code "
            "comparison is exact only where every intermediate float is representable. math.* entries and named "
            "constants are recorded by name (trusted libm). Where SWI and YAP differ (/, integer/1, round/1, ** typing) "
            "either reading is accepted. Builtin models are hand-written (correspondence on the generated cases only); "
            "unification inside builtins is modelled for var/ground arguments only. atom_number/2 floats are covered "
            "by the oracle only.",
    "design_ref": "DESIGN.md §6 C16, §4.1",
}

BIG = [2 ** 62, -(2 ** 62), 2 ** 70, -(2 ** 70)]
SMALL = list(range(-8, 9))
FLOATS = [0.0, 0.5, -0.5, 1.0, -1.0, 1.5, -1.5, 2.5, -2.5, 3.5, -3.5, 0.25, -0.75, 2.0, -2.0, 7.0, 100.125]
BINARY_INFIX = ["+", "-", "*", "/", "//", "mod", "rem", "div", "**", "^", "/\\", "\\/", "xor", "#", "><", "<<", ">>"]


# ------------------------------------------------------------------------------------------------ canonical values
def tok(v):
    if type(v) is int:
        return "i:%d" % v
    return "f:" + lib.rat(v)


def canon_py(thunk):
    """Run a Python callable; canonical outcome ('I', n) | ('F', float) | ('X', repr) | ('E', class name)."""
    try:
        r = thunk()
    except Exception as e:  # noqa
        return ("E", type(e).__name__, e)
    if type(r) is int:
        return ("I", r)
    if type(r) is float:
        return ("F", r)
    if r is None:
        return ("N",)
    return ("X", "%s:%r" % (type(r).__name__, r))


def is_problog_error(e):
    from problog.errors import ProbLogError
    return isinstance(e, ProbLogError)


def fclose(x, y, tight):
    if x != x or y != y:
        return x != x and y != y
    if math.isinf(x) or math.isinf(y):
        return x == y
    if tight:
        return x == y or abs(x - y) <= 1e-12 * max(abs(x), abs(y))
    return lib.close(x, y) or abs(x - y) <= 1e-12 * max(abs(x), abs(y))


def judge(outcome, acceptable, tight=True):
    """None if `outcome` (canon_py form) is acceptable, else a kind string."""
    k = outcome[0]
    if k == "E":
        if not is_problog_error(outcome[2]):
            return "raw-exception"
        if acceptable is None or O.E in acceptable:
            return None
        return "spurious-error"
    if k in ("X", "N"):
        return "not-a-number"
    if acceptable is None:
        return None
    vals = [a for a in acceptable if a != O.E]
    if not vals:
        return "no-error"
    for a in vals:
        if a[0] == k and (a[1] == outcome[1] if k == "I" else fclose(outcome[1], a[1], tight)):
            return None
    for a in vals:
        try:
            if a[0] != k and ((a[1] == outcome[1]) or fclose(float(outcome[1]), float(a[1]), tight)):
                return "type"
        except OverflowError:
            pass
    return "value"


def show_outcome(o):
    if o[0] == "E":
        return "%s(%s)" % (o[1], str(o[2])[:60])
    return "%s" % (o[1],) if len(o) > 1 else "None"


def show_acc(acc):
    if acc is None:
        return "unspecified"
    return " or ".join("error" if a == O.E else repr(a[1]) for a in acc)


# ------------------------------------------------------------------------------------------------ real ProbLog
class Impl:
    def __init__(self):
        from problog.engine import DefaultEngine
        from problog.program import PrologString
        from problog import logic
        self.logic = logic
        self.PrologString = PrologString
        self.DefaultEngine = DefaultEngine
        self.table = logic._arithmetic_functions
        self.resets = 0
        self.reset()

    def reset(self):
        """A fresh engine: an engine object is not reusable after an exception escaped `execute` (its stack is not
        unwound — a C08 matter), so every query that raised is followed by a reset."""
        self.eng = self.DefaultEngine()
        self.db = self.eng.prepare(self.PrologString("c16_dummy."))
        self.resets += 1

    def guarded(self, thunk):
        out = canon_py(thunk)
        if out[0] == "E":
            self.reset()
        return out

    def term(self, tree):
        """expression tree -> problog Term. tree: int | float | ('v',) | (name, [children])"""
        L = self.logic
        if type(tree) in (int, float):
            return L.Constant(tree)
        if tree == ("v",):
            return L.Var("Unbound")
        return L.Term(tree[0], *[self.term(c) for c in tree[1]])

    def compute_value(self, tree):
        t = self.term(tree)
        return canon_py(lambda: t.compute_value())

    def is_query(self, tree):
        L = self.logic
        t = L.Term("is", L.Var("X"), self.term(tree))

        def run():
            res = self.eng.query(self.db, t)
            if len(res) != 1:
                raise Infra("is/2 returned %d solutions for %s" % (len(res), t))
            c = res[0][0]
            if not isinstance(c, L.Constant):
                return c
            return c.functor
        return self.guarded(run)

    def is_text(self, text):
        """`X is <text>` through the parser: PrologString + engine query."""
        L = self.logic

        def run():
            db = self.eng.prepare(self.PrologString("c16_r(X) :- X is %s." % text))
            res = self.eng.query(db, L.Term("c16_r", None))
            if len(res) != 1:
                raise Infra("is/2 returned %d solutions for %s" % (len(res), text))
            c = res[0][0]
            return c.functor if isinstance(c, L.Constant) else c
        return self.guarded(run)

    def compare(self, name, a, b):
        L = self.logic
        t = L.Term(name, self.term(a), self.term(b))

        def run():
            return len(self.eng.query(self.db, t))
        return self.guarded(run)

    # --- builtins over oracle terms
    def to_pl(self, t):
        L = self.logic
        if t[0] == "v":
            return L.Var("V%s" % t[1])
        if t[0] in ("i", "f"):
            return L.Constant(t[1])
        if t[0] == "a":
            return L.Term(atom_text(t[1]))
        return L.Term(atom_text(t[1]) if t[1] != "." else ".", *[self.to_pl(x) for x in t[2]])

    def from_pl(self, x, counter):
        L = self.logic
        if x is None:
            counter[0] += 1
            return ("v", "anon%d" % counter[0])
        if type(x) is int:
            return ("v", "e%d" % x)
        if isinstance(x, L.Var):
            return ("v", x.name)
        if isinstance(x, L.Constant):
            v = x.functor
            if type(v) is int:
                return ("i", v)
            if type(v) is float:
                return ("f", v)
            return ("s", v)
        if not isinstance(x, L.Term):
            return ("?", repr(x))
        name = x.functor
        if not isinstance(name, str):
            name = "<%s %r>" % (type(name).__name__, name)      # e.g. Term(1): an "atom" whose name is an int
        elif len(name) >= 2 and name[0] == "'" and name[-1] == "'":
            name = name[1:-1]
        if x.arity == 0:
            return ("a", name)
        return ("c", name, [self.from_pl(a, counter) for a in x.args])

    def query(self, name, args):
        L = self.logic
        t = L.Term(name, *[self.to_pl(a) for a in args])
        try:
            res = self.eng.query(self.db, t)
        except Exception as e:  # noqa
            self.reset()
            return ("E", type(e).__name__, e)
        counter = [0]
        return ("S", [[self.from_pl(x, counter) for x in tup] for tup in res])


def atom_text(name):
    """How the parser spells an atom: quoted unless it is a plain lower-case word or []."""
    import re
    if name == "[]" or re.match(r"^[a-z][a-zA-Z0-9_]*$", name) or re.match(r"^[-+*/\\^<>=~:.?@#&$]+$", name):
        return name
    return "'%s'" % name


def rename(sols):
    """Canonical variable names by first occurrence over a whole solution list."""
    m = {}

    def go(t):
        if t[0] == "v":
            if t[1] not in m:
                m[t[1]] = "_G%d" % len(m)
            return ("v", m[t[1]])
        if t[0] == "c":
            return ("c", t[1], [go(x) for x in t[2]])
        return t
    return [[go(t) for t in tup] for tup in sols]


def show_term(t):
    if t[0] == "v":
        return str(t[1]).upper() if not str(t[1]).startswith("_") else str(t[1])
    if t[0] in ("i", "f"):
        return repr(t[1])
    if t[0] == "a":
        return atom_text(t[1])
    if t[0] == "s":
        return '"%s"' % t[1]
    if t[0] == "c":
        xs, tail = O.list_parts(t)
        if xs:
            return "[" + ",".join(show_term(x) for x in xs) + ("" if tail == O.NIL else "|" + show_term(tail)) + "]"
        return "%s(%s)" % (atom_text(t[1]), ",".join(show_term(x) for x in t[2]))
    return str(t)


def sexp_term(t, varids):
    if t[0] == "v":
        if t[1] not in varids:
            varids[t[1]] = len(varids) + 1
        return "(v %d)" % varids[t[1]]
    if t[0] == "i":
        return "(i %d)" % t[1]
    if t[0] == "f":
        return "(f %s)" % lib.rat(t[1])
    if t[0] == "a":
        return "(c %s)" % lib.q(atom_text(t[1]))
    return "(c %s %s)" % (lib.q(atom_text(t[1]) if t[1] != "." else "."), " ".join(sexp_term(x, varids) for x in t[2]))


def parse_sexp(s):
    """Parse the driver's term output back into oracle terms (list of tuples)."""
    toks = []
    i, n = 0, len(s)
    while i < n:
        c = s[i]
        if c in "()":
            toks.append(c)
            i += 1
        elif c == " ":
            i += 1
        elif c == '"':
            j = i + 1
            buf = []
            while s[j] != '"':
                if s[j] == "\\":
                    j += 1
                buf.append(s[j])
                j += 1
            toks.append(("str", "".join(buf)))
            i = j + 1
        else:
            j = i
            while j < n and s[j] not in "() ":
                j += 1
            toks.append(s[i:j])
            i = j
    pos = [0]

    def rd():
        t = toks[pos[0]]
        pos[0] += 1
        if t == "(":
            xs = []
            while toks[pos[0]] != ")":
                xs.append(rd())
            pos[0] += 1
            return xs
        return t
    return rd()


def term_of_sexp(x):
    if x == "_":
        term_of_sexp.n += 1
        return ("v", "anon%d" % term_of_sexp.n)
    if x[0] == "v":
        return ("v", "m%s" % x[1])
    if x[0] == "i":
        return ("i", int(x[1]))
    if x[0] == "f":
        return ("f", float(Fraction(x[1])))
    if x[0] == "c":
        name = x[1][1]
        if len(name) >= 2 and name[0] == "'" and name[-1] == "'":
            name = name[1:-1]
        if len(x) == 2:
            return ("a", name)
        return ("c", name, [term_of_sexp(y) for y in x[2:]])
    raise Infra("driver term %r" % (x,))


term_of_sexp.n = 0


# ------------------------------------------------------------------------------------------------ source cross-checks
def modes_from_source(repo):
    """check_mode call sites of the eight builtins and the mode_types table, from engine_builtin.py's AST."""
    src = open(os.path.join(repo, "problog", "engine_builtin.py"), encoding="utf-8").read()
    tree = ast.parse(src)
    want = {"_builtin_between": "between", "_builtin_succ": "succ", "_builtin_plus": "plus", "_builtin_length": "length",
            "_builtin_functor": "functor", "_builtin_arg": "arg", "_builtin_split_call": "split_call",
            "_builtin_atom_number": "atom_number"}
    modes, types = {}, {}
    for st in tree.body:
        if isinstance(st, ast.FunctionDef) and st.name in want:
            calls = [n for n in ast.walk(st) if isinstance(n, ast.Call) and isinstance(n.func, ast.Name)
                     and n.func.id == "check_mode"]
            if len(calls) == 1 and len(calls[0].args) >= 2 and isinstance(calls[0].args[1], ast.List):
                modes[want[st.name]] = [e.value for e in calls[0].args[1].elts if isinstance(e, ast.Constant)]
        if (isinstance(st, ast.Assign) and isinstance(st.targets[0], ast.Name) and st.targets[0].id == "mode_types"
                and isinstance(st.value, ast.Dict)):
            for k, v in zip(st.value.keys, st.value.values):
                if isinstance(k, ast.Constant) and isinstance(v, ast.Tuple) and len(v.elts) == 2 and isinstance(v.elts[1], ast.Name):
                    types[k.value] = v.elts[1].id
    return modes, types


# ------------------------------------------------------------------------------------------------ generators
def gen_tree(rng, keys1, keys2, depth, floats=True):
    if depth == 0 or rng.random() < 0.25:
        r = rng.random()
        if r < 0.6 or not floats:
            return rng.choice(SMALL)
        if r < 0.9:
            return rng.choice(FLOATS)
        return rng.choice(BIG[:2])
    if rng.random() < 0.3:
        return (rng.choice(keys1), [gen_tree(rng, keys1, keys2, depth - 1, floats)])
    name = rng.choice(keys2)
    if name in ("**", "^", "exp"):      # keep exponents and shift counts small literals (no astronomically large ints)
        right = rng.choice([-2, -1, 0, 1, 2, 3, 5, 2.0, 0.5] if floats else [-2, -1, 0, 1, 2, 3, 5])
    elif name in ("<<", ">>"):
        right = rng.choice([0, 1, 2, 3, 7, 40, -1])
    else:
        right = gen_tree(rng, keys1, keys2, depth - 1, floats)
    return (name, [gen_tree(rng, keys1, keys2, depth - 1, floats), right])


def tree_sexp(t):
    if type(t) in (int, float):
        return tok(t)
    if t == ("v",):
        return "v"
    return "(%s%s)" % (t[0], "".join(" " + tree_sexp(c) for c in t[1]))


def tree_text(t):
    """Prolog text of an expression, fully parenthesised."""
    if type(t) is int:
        return "%d" % t if t >= 0 else "(%d)" % t
    if type(t) is float:
        s = repr(t)
        if "e" in s or "inf" in s or "nan" in s:
            return None
        return s if t >= 0 else "(%s)" % s
    if t == ("v",):
        return "Unbound"
    name, cs = t
    parts = [tree_text(c) for c in cs]
    if any(p is None for p in parts):
        return None
    if len(cs) == 2 and name in BINARY_INFIX:
        return "(%s %s %s)" % (parts[0], name, parts[1])
    if len(cs) == 1 and name in ("-", "+", "\\"):
        return "%s(%s)" % (name, parts[0])
    if len(cs) == 0:
        return name
    return "%s(%s)" % (name, ",".join(parts))


def tree_size(t):
    if type(t) in (int, float) or t == ("v",):
        return 1
    return 1 + sum(tree_size(c) for c in t[1])


def subtrees(t):
    yield t
    if type(t) is tuple and t != ("v",):
        for c in t[1]:
            for s in subtrees(c):
                yield s


ATOMS = ["a", "b", "foo", "[]", "f", "g", "hello world", "A1", "x_y"]   # (no number-like atoms: atom-vs-number equality is C18)


def gen_term(rng, depth, vars_ok=True):
    r = rng.random()
    if depth == 0 or r < 0.45:
        r = rng.random()
        if r < 0.3:
            return ("i", rng.choice(SMALL))
        if r < 0.45:
            return ("f", rng.choice(FLOATS))
        if r < 0.8 or not vars_ok:
            return ("a", rng.choice(ATOMS))
        return ("v", rng.choice("xyz"))
    if r < 0.7:
        n = rng.randrange(0, 4)
        xs = [gen_term(rng, depth - 1, vars_ok) for _ in range(n)]
        rr = rng.random()
        tail = O.NIL if rr < 0.75 or not vars_ok else (("v", "t") if rr < 0.9 else ("a", "b"))
        if rr >= 0.9 and vars_ok:
            tail = ("a", "b")
        return O.mklist(xs, tail) if xs else O.NIL
    return ("c", rng.choice(["f", "g", "-", "+", "point"]), [gen_term(rng, depth - 1, vars_ok) for _ in range(rng.randrange(1, 4))])


def gen_builtin_case(rng):
    """(name, args, tag)"""
    iv = lambda: ("i", rng.choice(SMALL))                           # noqa
    V = lambda n="x": ("v", n)                                      # noqa
    b = rng.choice(["between", "succ", "plus", "length", "functor", "arg", "=..", "atom_number"])
    r = rng.random()
    if b == "between":
        if r < 0.45:
            return b, [iv(), iv(), V()], "iiv"
        if r < 0.9:
            return b, [iv(), iv(), iv()], "iii"
        return b, rng.choice([[V(), iv(), iv()], [iv(), V(), iv()], [iv(), ("a", "inf"), V()], [("f", 1.5), iv(), V()]]), "bad"
    if b == "succ":
        nat = lambda: ("i", rng.randrange(0, 9))                    # noqa
        if r < 0.3:
            return b, [V(), nat()], "vI"
        if r < 0.6:
            return b, [nat(), V("y")], "Iv"
        if r < 0.8:
            a = nat()
            return b, [a, rng.choice([("i", a[1] + 1), nat()])], "II"
        if r < 0.92:
            return b, rng.choice([[V(), ("i", -rng.randrange(1, 5))], [("i", -rng.randrange(1, 5)), V()], [("i", -1), ("i", 0)]]), "negative"
        return b, rng.choice([[V(), V("y")], [("a", "a"), V()], [("f", 1.5), V()]]), "bad"
    if b == "plus":
        a, c, d = iv(), iv(), iv()
        if r < 0.25:
            return b, [a, c, rng.choice([("i", a[1] + c[1]), d])], "iii"
        if r < 0.5:
            return b, [a, c, V()], "iiv"
        if r < 0.7:
            return b, [a, V(), d], "ivi"
        if r < 0.9:
            return b, [V(), c, d], "vii"
        return b, rng.choice([[V(), V("y"), d], [a, V(), V("y")], [("a", "a"), c, V()]]), "bad"
    if b == "length":
        xs = [gen_term(rng, 1) for _ in range(rng.randrange(0, 5))]
        if r < 0.3:
            return b, [O.mklist(xs), V("n")], "Lv"
        if r < 0.55:
            return b, [O.mklist(xs), ("i", rng.choice([len(xs), len(xs), rng.randrange(0, 6)]))], "LI"
        if r < 0.7:
            return b, [V("l"), ("i", rng.randrange(0, 5))], "vI"
        if r < 0.88:
            xs = [gen_term(rng, 0) for _ in xs]          # (no second occurrence of the tail variable)
            return b, [O.mklist(xs, V("t")) if xs else V("t"), ("i", rng.randrange(0, 7))], "lI"
        return b, rng.choice([[V("l"), V("n")], [O.mklist(xs + [("a", "q")], V("t")), V("n")], [("a", "a"), V("n")],
                              [O.mklist([("a", "a")], ("a", "b")), V("n")], [O.mklist(xs), ("i", -1)]]), "bad"
    if b == "functor":
        if r < 0.4:
            return b, [gen_term(rng, 2), V("f"), V("n")], "n**"
        if r < 0.6:
            t = gen_term(rng, 2, vars_ok=False)
            return b, [t, rng.choice([V("f"), ("a", rng.choice(["f", "g", "a", "."]))]), rng.choice([V("n"), ("i", rng.randrange(0, 4))])], "n**check"
        if r < 0.9:
            return b, [V("t"), ("a", rng.choice(["f", "foo", "[]", "hello world"])), ("i", rng.randrange(0, 4))], "vaI"
        return b, rng.choice([[V("t"), V("f"), ("i", 2)], [V("t"), ("a", "f"), V("n")], [V("t"), ("i", 1), ("i", 0)],
                              [V("t"), ("c", "f", [("a", "a")]), ("i", 1)]]), "bad"
    if b == "arg":
        t = ("c", rng.choice(["f", "g", "."]), [gen_term(rng, 1, vars_ok=False) for _ in range(rng.randrange(1, 4))])
        if r < 0.5:
            return b, [("i", rng.randrange(0, 5)), t, V("a")], "In*"
        if r < 0.8:
            k = rng.randrange(1, len(t[2]) + 1)
            return b, [("i", k), t, rng.choice([t[2][k - 1], gen_term(rng, 1, vars_ok=False)])], "In*check"
        if r < 0.9:
            return b, [("i", rng.randrange(0, 3)), rng.choice([("a", "a"), ("i", 3)]), V("a")], "atomic"
        return b, rng.choice([[V("n"), t, V("a")], [("i", 1), V("t"), V("a")], [("a", "a"), t, V("a")]]), "bad"
    if b == "=..":
        if r < 0.4:
            return b, [gen_term(rng, 2), V("l")], "nv"
        if r < 0.55:
            t = gen_term(rng, 2, vars_ok=False)
            alt = gen_term(rng, 2, vars_ok=False)
            l = O.mklist([("a", t[1])] + t[2]) if t[0] == "c" else O.mklist([t])
            return b, [t, rng.choice([l, l, O.mklist([alt])])], "nl"
        if r < 0.85:
            xs = [gen_term(rng, 1) for _ in range(rng.randrange(0, 4))]
            hd = rng.choice([("a", rng.choice(["f", "g", "foo"])), ("a", "f"), ("i", 3), ("f", 2.5)]) if xs else gen_term(rng, 0, vars_ok=False)
            if hd[0] == "c":
                hd = ("a", "f")
            return b, [V("t"), O.mklist([hd] + xs)], "vL"
        return b, rng.choice([[V("t"), V("l")], [V("t"), O.NIL], [V("t"), O.mklist([("a", "f")], V("r"))], [V("t"), ("a", "a")]]), "bad"
    # atom_number
    if r < 0.3:
        return b, [V("a"), rng.choice([iv(), ("f", rng.choice([1.5, -0.25, 100.125, 2.0]))])], "v-number"
    if r < 0.65:
        return b, [("a", rng.choice(["12", "-3", "0", "1.5", "-0.25", "2.0", "abc", "foo", "x_y", "007"])), V("n")], "a-v"
    if r < 0.85:
        return b, [("a", rng.choice(["12", "-3", "1.5", "2.0", "abc"])), rng.choice([("i", 12), ("i", -3), ("f", 1.5), ("f", 2.0), ("i", 2)])], "a-number"
    if r < 0.95:
        return b, [("a", rng.choice(["1e3", "0x1A", "inf", "nan", " 12", "1_000", "+5", ".5", "1."])), V("n")], "ambiguous"
    return b, rng.choice([[V("a"), V("n")], [("i", 1), V("n")], [("c", "f", [("a", "a")]), V("n")]]), "bad"


TYPE_TESTS = ["var", "nonvar", "atom", "atomic", "number", "integer", "float", "compound", "callable", "is_list", "ground"]


# ------------------------------------------------------------------------------------------------ the check
def run(ctx):
    ctx.rule = ("a case = one application f(args) of a table entry (grid: ints -8..8, ±2^62, ±2^70, 17 dyadic floats), "
                "one node of a random expression tree, one comparison, or one builtin call; distinct = distinct "
                "(function, arguments); non-trivial = at least one non-zero argument / a non-variable term")
    # ---- 1. regeneration (before any Lean build)
    with lib.LakeLock():
        tr, path, changed = py2lean_arith.regenerate(lib.REPO, lib.LEAN)
    ctx.notes.append("regenerated %s from %s/problog/logic.py (%s); %d translated, %d math, %d constants" % (
        os.path.relpath(path, lib.VERIF), lib.REPO, "content changed" if changed else "unchanged",
        len(tr.keys("fn")), len(tr.keys("math")), len(tr.keys("const"))))
    ctx.obligation("translator: every _arithmetic_functions entry is inside the supported subset", not tr.failed,
                   "; ".join("%s: %s" % (k, r) for k, r in tr.failed[:6]))
    impl = Impl()
    rt_keys = set(impl.table.keys())
    tr_keys = set(tr.entries.keys())
    ctx.obligation("translator: key set of the generated table = keys of problog.logic._arithmetic_functions at run time",
                   rt_keys == tr_keys or bool(tr.failed),
                   "only in source: %s; only in translation: %s" % (sorted(rt_keys - tr_keys)[:5], sorted(tr_keys - rt_keys)[:5]))
    ctx.proof_phase(MODULE, THEOREMS, refutations=REFUTATIONS)
    drv = ctx.driver("Drivers.C16")

    failures = []      # (what, replay, sig)
    import time as _time
    phases = ctx.extra.setdefault("phase_seconds", {})
    _t = [_time.time()]

    def lap(name):
        now = _time.time()
        phases[name] = round(now - _t[0], 2)
        _t[0] = now
    lap("regeneration+lean")

    def report(what, replay, sig):
        failures.append((what, replay, sig))

    if ctx.replay_in:
        return replay(ctx, impl, json.load(open(ctx.replay_in)))

    # ---- 2. keys / modes of the built driver = this run's translation and the source's AST
    if drv is not None:
        kline, mline = drv.run(["keys", "modes"])
        k = parse_sexp("(" + kline + ")")
        dk = {tuple(x[1].rsplit("/", 1)) for x in k[0]}
        ok = dk == {(n, str(a)) for (n, a) in tr.keys("fn")} and [x[1] for x in k[3]] == tr.mapped_errors
        ctx.obligation("driver was built from this run's translation (keys, mapped exception classes)", ok, kline[:200])
        src_modes, src_types = modes_from_source(lib.REPO)
        m = parse_sexp("(" + mline + ")")
        model_modes = {x[0][1]: [y[1] for y in x[1:]] for x in m[0]}
        model_types = dict(x[1].split("=", 1) for x in m[1])
        ok = model_modes == src_modes and all(src_types.get(kk) == vv for kk, vv in model_types.items())
        ctx.obligation("Builtins model: mode strings and mode_types equal the check_mode call sites in engine_builtin.py", ok,
                       "source %s / model %s" % (src_modes, model_modes) if not ok else "")
    corr_bad = []

    # ---- 3. grid: translator cross-check (Lean def vs Python lambda) + oracle vs implementation
    fn_keys = tr.keys("fn")
    lines, meta = [], []
    pow_exps = [-3, -2, -1, 0, 1, 2, 3, 5, 8]
    shift_counts = [-2, -1, 0, 1, 2, 3, 7, 62, 70]
    rng = ctx.sub_rng("grid")
    for (name, ar) in sorted(rt_keys, key=str):
        if ar == 0:
            argsets = [()]
        elif ar == 1:
            argsets = [(a,) for a in SMALL + BIG + FLOATS]
        else:
            left = SMALL + BIG + FLOATS
            if name in ("**", "^", "exp"):
                right = pow_exps + [0.5, 2.0, -1.0, 1.5]
            elif name in ("<<", ">>"):
                right = shift_counts + [1.5]
            else:
                right = SMALL + BIG + FLOATS
            argsets = [(a, b) for a in left for b in right]
            if ctx.quick() and len(argsets) > 700:
                keep = [(a, b) for (a, b) in argsets if type(a) is int and type(b) is int and abs(a) <= 8 and abs(b) <= 8]
                ks = set(keep)
                rest = [x for x in argsets if x not in ks]
                argsets = keep + rng.sample(rest, 700 - len(keep)) if len(keep) < 700 else keep
        for args in argsets:
            ctx.count("grid %s/%d" % (name, ar))
            ctx.case("g|%s|%r" % (name, args), nontrivial=any(a != 0 for a in args))
            fn = impl.table[(name, ar)]
            direct = canon_py(lambda: fn(*args))
            tree = (name, list(args))
            via_is = impl.is_query(tree)
            via_cv = impl.compute_value(tree)
            acc = O.arith(name, list(args))
            for route, out, tight in (("is/2", via_is, False), ("compute_value", via_cv, True)):
                kind = judge(out, acc, tight)
                if kind:
                    report("%s(%s) via %s gives %s; ISO/SWI/YAP: %s" % (name, ", ".join(map(repr, args)), route, show_outcome(out), show_acc(acc)),
                           {"kind": "arith", "function": name, "args": list(args), "route": route},
                           {"kind": kind, "function": "%s/%d" % (name, ar)})
                    break
            if (name, ar) in tr.entries and tr.entries[(name, ar)][0] == "fn":
                lines.append("fn %s%s" % (name, "".join(" " + tok(a) for a in args)))
                meta.append((name, args, direct))
    if drv is not None:
        outs = drv.run(lines)
        nbad = 0
        for (name, args, direct), o in zip(meta, outs):
            if not agree_fn(direct, o):
                nbad += 1
                if len(corr_bad) < 5:
                    corr_bad.append("%s%r: Lean %s, Python %s" % (name, args, o, show_outcome(direct)))
                    ctx.disagree("generated ArithTable vs Python lambda", corr_bad[-1])
        ctx.obligation("translator cross-check: %d applications of the %d generated definitions agree with the Python lambdas" % (
            len(lines), len(fn_keys)), nbad == 0, "; ".join(corr_bad[:3]))

    lap("grid")
    # ---- 4. the Lean spec (IsoArith) says what the Python oracle says (keeps the two readings of the standard aligned)
    if drv is not None:
        lines, exp = [], []
        for name in ["//", "div", "mod", "rem", "+", "-", "*", "min", "max"]:
            for a in SMALL + BIG:
                for b in SMALL + BIG[:2]:
                    acc = O.arith(name, [a, b])
                    lines.append("iso %s %d %d" % (name, a, b))
                    exp.append("none" if acc == [O.E] else "I %d" % acc[0][1])
        for name in [">>", "<<", "^"]:
            for a in SMALL + BIG:
                for b in [0, 1, 2, 3, 7, 62, 70]:
                    lines.append("iso %s %d %d" % (name, a, b))
                    exp.append("I %d" % O.arith(name, [a, b])[0][1])
        for name, pyn in [("abs", "abs"), ("sign", "sign"), ("neg", "-"), ("\\", "\\")]:
            for a in SMALL + BIG:
                lines.append("iso %s %d 0" % (name, a))
                exp.append("I %d" % O.arith(pyn, [a])[0][1])
        for a in SMALL + BIG:
            for b in SMALL:
                for i in (0, 1, 3, 64):
                    for nm, f in (("/\\", lambda x, y: x and y), ("\\/", lambda x, y: x or y), ("xor", lambda x, y: x != y)):
                        pass
        for nm, isoname in (("truncate", "truncate"), ("floor", "floor"), ("ceiling", "ceiling")):
            for x in FLOATS + [2.75, -2.75, 1e6 + 0.5]:
                lines.append("isof %s %s" % (isoname, lib.rat(x)))
                exp.append("%d" % O.arith(nm, [x])[0][1])
        for x in FLOATS + [2.75, -2.75, 4.5, -4.5]:
            lines.append("isof roundAway %s" % lib.rat(x)); exp.append("%d" % O.round_away(x))      # noqa
            lines.append("isof roundEven %s" % lib.rat(x)); exp.append("%d" % O.round_even(x))      # noqa
            lines.append("isof roundIso %s" % lib.rat(x)); exp.append("%d" % math.floor(x + 0.5))   # noqa
            lines.append("isof signF %s" % lib.rat(x)); exp.append(lib.rat(O.arith("sign", [x])[0][1]))  # noqa
            lines.append("isof floatIntegerPart %s" % lib.rat(x)); exp.append(lib.rat(O.arith("float_integer_part", [x])[0][1]))  # noqa
        outs = drv.run(lines)
        bad = [(l, o, e) for l, o, e in zip(lines, outs, exp) if o != e]
        # bits of and/or/xor: oracle result's bits are the bitwise combination of the spec's `bit`
        blines, bexp = [], []
        for a in SMALL + BIG:
            for b in SMALL[::2] + BIG[:1]:
                for nm, f in (("/\\", lambda x, y: x and y), ("\\/", lambda x, y: x or y), ("xor", lambda x, y: x != y)):
                    r = O.arith(nm, [a, b])[0][1]
                    for i in (0, 1, 3, 64, 71):
                        blines += ["iso bit %d %d" % (r, i), "iso bit %d %d" % (a, i), "iso bit %d %d" % (b, i)]
                        bexp.append(f)
        bouts = drv.run(blines)
        for j, f in enumerate(bexp):
            r, x, y = (bouts[3 * j + t] == "true" for t in range(3))
            if r != f(x, y):
                bad.append((blines[3 * j], bouts[3 * j], "bitwise"))
        ctx.obligation("Lean spec IsoArith = Python oracle on %d integer/float points" % (len(lines) + len(bexp)), not bad, str(bad[:3]))

    lap("spec-vs-oracle")
    # ---- 5. comparisons
    cmp_vals = SMALL[::2] + FLOATS[:9] + BIG[:2]
    for name in ["<", "=<", ">", ">=", "=:=", "=\\="]:
        for a in cmp_vals:
            for b in cmp_vals:
                if (abs(a) > 2 ** 53 and type(b) is float) or (abs(b) > 2 ** 53 and type(a) is float):
                    continue
                ctx.count("compare " + name)
                ctx.case("c|%s|%r|%r" % (name, a, b), nontrivial=(a != 0 or b != 0))
                out = impl.compare(name, a, b)
                want = 1 if O.cmp(name, a, b) else 0
                if out != ("I", want):
                    report("%r %s %r gives %s; Prolog: %s" % (a, name, b, show_outcome(out), bool(want)),
                           {"kind": "compare", "function": name, "args": [a, b]},
                           {"kind": "raw-exception" if out[0] == "E" and not is_problog_error(out[2]) else "value", "function": name + "/2"})

    lap("comparisons")
    # ---- 6. random expression trees: node-local oracle check on the real code + compute_function model
    keys1 = sorted(n for (n, a) in rt_keys if a == 1)
    keys2 = sorted(n for (n, a) in rt_keys if a == 2)
    tkeys1 = sorted(n for (n, a) in fn_keys if a == 1)
    tkeys2 = sorted(n for (n, a) in fn_keys if a == 2)
    rng = ctx.sub_rng("trees")
    ntrees = ctx.budget(500, 20000)
    trees = []
    for i in range(ntrees):
        if i % 3 == 0:
            trees.append(gen_tree(rng, keys1, keys2, rng.randrange(1, 4)))
        else:
            trees.append(gen_tree(rng, tkeys1, tkeys2, rng.randrange(1, 5), floats=(i % 3 == 1)))
    # error stream: unbound variable, unknown function, division by zero, bit operation on a float
    for i in range(ctx.budget(60, 1000)):
        t = gen_tree(rng, tkeys1, tkeys2, rng.randrange(1, 3))
        bad = rng.choice([("v",), ("foo", [1]), ("//", [rng.choice(SMALL), 0]), ("mod", [3, 0]), ("/", [1.5, 0]), ("<<", [1.5, 2]),
                          ("/\\", [1, 2.0]), ("\\", [2.5]), ("exp", [1000]), ("**", [10.0, 400]), ("**", [-8, 0.5]), ("log", [0]),
                          ("sqrt", [-1]), ("<<", [1, -1]), ("integer", [("inf", [])]), ("truncate", [("nan", [])]), ("bar", [])])
        trees.append((rng.choice(tkeys2), [t, bad]) if rng.random() < 0.5 else bad)
    ev_lines, ev_meta = [], []
    parse_skips = 0
    for t in trees:
        ctx.count("tree size %d" % min(tree_size(t), 12) if tree_size(t) < 12 else "tree size 12+")
        root = impl.is_query(t)
        rootcv = impl.compute_value(t)
        ctx.case("t|" + tree_sexp(t), nontrivial=tree_size(t) > 1)
        ctx.sample({"expression": tree_text(t) or tree_sexp(t), "is/2": show_outcome(root)})
        # both routes agree
        if (root[0], rootcv[0]) != ("E", "E") and not same_outcome(root, rootcv):
            report("X is %s gives %s but Term.compute_value gives %s" % (tree_text(t), show_outcome(root), show_outcome(rootcv)),
                   {"kind": "tree", "tree": tree_sexp(t)}, {"kind": "routes-differ", "function": "is/2"})
        # parser route
        text = tree_text(t)
        if text is not None and rng.random() < ctx.budget(0.4, 0.4):
            viap = impl.is_text(text)
            if viap[0] == "E" and type(viap[2]).__name__ == "ParseError":
                parse_skips += 1
            elif not same_outcome(root, viap) and not (root[0] == "E" and viap[0] == "E" and is_problog_error(viap[2]) == is_problog_error(root[2])):
                report("`X is %s` through PrologString gives %s, the same term built directly gives %s" % (text, show_outcome(viap), show_outcome(root)),
                       {"kind": "text", "text": text}, {"kind": "routes-differ", "function": "parser"})
        # node-local check
        for s in subtrees(t):
            if type(s) is not tuple:
                continue
            out = impl.compute_value(s)
            if s == ("v",):
                if not (out[0] == "E" and is_problog_error(out[2])):
                    report("compute_value of an unbound variable gives %s" % show_outcome(out), {"kind": "tree", "tree": "v"},
                           {"kind": "raw-exception" if out[0] == "E" else "no-error", "function": "var"})
                continue
            kids = [impl.compute_value(c) if type(c) is tuple else canon_py(lambda c=c: c) for c in s[1]]
            if any(kk[0] not in ("I", "F") for kk in kids):
                if out[0] != "E" or not is_problog_error(out[2]):
                    if out[0] == "E":
                        report("%s with a failing argument raises %s" % (tree_sexp(s), show_outcome(out)), {"kind": "tree", "tree": tree_sexp(s)},
                               {"kind": "raw-exception", "function": "%s/%d" % (s[0], len(s[1])), "exception": out[1]})
                continue
            vals = [kk[1] for kk in kids]
            if (s[0], len(vals)) in rt_keys:
                acc = O.arith(s[0], vals)
            else:
                acc = [O.E]
            kind = judge(out, acc)
            if kind:
                sig = {"kind": kind, "function": "%s/%d" % (s[0], len(vals))}
                if kind == "raw-exception":
                    sig["exception"] = out[1]
                report("%s(%s) gives %s; ISO/SWI/YAP: %s" % (s[0], ", ".join(map(repr, vals)), show_outcome(out), show_acc(acc)),
                       {"kind": "arith", "function": s[0], "args": vals, "route": "compute_value"}, sig)
        ev_lines.append("ev " + tree_sexp(t))
        ev_meta.append((t, rootcv))
    ctx.extra["parse_errors_skipped"] = parse_skips
    if drv is not None:
        outs = drv.run(ev_lines)
        nbad = nskip = 0
        for (t, py), o in zip(ev_meta, outs):
            a = agree_ev(py, o)
            if a is None:
                nskip += 1
            elif not a:
                nbad += 1
                if nbad <= 3:
                    ctx.disagree("compute_function model vs Term.compute_value", "%s: Lean %s, Python %s" % (tree_sexp(t), o, show_outcome(py)))
        ctx.extra["tree_model_skipped_inexact_or_named"] = nskip
        ctx.obligation("correspondence: compute_function model = Term.compute_value on %d expression trees (%d outside the model: libm / inexact floats)" % (
            len(ev_lines), nskip), nbad == 0 and nskip < len(ev_lines) * 0.7)

    lap("trees")
    # ---- 7. builtins: every supported mode + a smaller invalid stream
    rng = ctx.sub_rng("builtins")
    nb = ctx.budget(1500, 40000)
    bl, bmeta = [], []
    fresh_n = [0]

    def fresh(k):
        out = []
        for _ in range(k):
            fresh_n[0] += 1
            out.append(("v", "fresh%d" % fresh_n[0]))
        return out
    for _ in range(nb):
        name, args, tag = gen_builtin_case(rng)
        ctx.count("builtin %s %s" % (name, tag))
        key = "b|%s|%s" % (name, ",".join(show_term(a) for a in args))
        ctx.case(key, nontrivial=any(a[0] != "v" for a in args))
        res = impl.query(name, args)
        if name == "atom_number":
            acc, supported = O.atom_number(args)
        else:
            acc, supported = O.builtin(name, args, fresh)
        goal = "%s(%s)" % (name, ",".join(show_term(a) for a in args))
        kind = judge_builtin(res, acc, supported)
        if kind:
            sig = {"kind": kind, "builtin": "%s/%d" % (name, len(args)), "mode": tag}
            if kind == "raw-exception":
                sig["exception"] = res[1]
            report("%s gives %s; Prolog: %s" % (goal, show_result(res), show_accepted(acc)),
                   {"kind": "builtin", "name": name, "args": args, "mode": tag}, sig)
        varids = {}
        line = "bi %s %s" % (lib.q(name), " ".join(sexp_term(a, varids) for a in args))
        if name == "length":
            line += " (i -100)"
        if name != "atom_number" or all(a[0] != "f" for a in args):
            bl.append(line)
            bmeta.append((goal, res))
    for _ in range(ctx.budget(600, 10000)):
        t = gen_term(rng, 3)
        for tt in TYPE_TESTS:
            ctx.count("type test " + tt)
            ctx.case("tt|%s|%s" % (tt, show_term(t)), nontrivial=t[0] != "v")
            res = impl.query(tt, [t])
            want = O.type_test(tt, t)
            got = None if res[0] == "E" else (len(res[1]) == 1)
            if got is None or got != want:
                sig = {"kind": "raw-exception" if got is None and not is_problog_error(res[2]) else "truth", "builtin": tt + "/1"}
                if tt == "is_list":
                    sig["partial_list"] = O.is_var(O.list_parts(t)[1]) and t[0] == "c"
                report("%s(%s) %s; Prolog: %s" % (tt, show_term(t), show_result(res) if got is None else ("succeeds" if got else "fails"),
                                                  "succeeds" if want else "fails"),
                       {"kind": "typetest", "name": tt, "term": t}, sig)
            varids = {}
            bl.append("tt %s %s" % (tt, sexp_term(t, varids)))
            bmeta.append(("%s(%s)" % (tt, show_term(t)), ("T", got)))
    if drv is not None:
        outs = drv.run(bl)
        nbad = nskip = 0
        for (goal, res), o in zip(bmeta, outs):
            a = agree_builtin(res, o)
            if a is None:
                nskip += 1
            elif not a:
                nbad += 1
                if nbad <= 3:
                    ctx.disagree("Builtins model vs engine", "%s: Lean %s, engine %s" % (goal, o[:200], show_result(res)))
        ctx.obligation("correspondence: Builtins model = engine on %d builtin calls and type tests (%d outside the model)" % (len(bl), nskip),
                       nbad == 0 and nskip < len(bl) * 0.5)

    lap("builtins")
    ctx.extra["engine_resets"] = impl.resets
    # ---- verdict: shrink is trivial (every failure is a single application / call); report distinct signatures
    seen = set()
    failures.sort(key=lambda f: len(f[0]))       # smallest witness of every signature first
    for what, rep, sig in failures:
        k = json.dumps(sig, sort_keys=True)
        if k in seen and len(seen) > 0 and sum(1 for _ in seen) > 40:
            continue
        first = k not in seen
        seen.add(k)
        st = ctx.fail(what, rep, sig)
        if st == "new" and not first:
            ctx.failures.pop()          # keep one witness per signature among the new failures
    ctx.extra["failing_applications_total"] = len(failures)
    bysig = {}
    for what, rep, sig in failures:
        k = json.dumps(sig, sort_keys=True)
        bysig.setdefault(k, [0, what])[0] += 1
    ctx.extra["failure_signatures"] = {k: {"count": v[0], "first": v[1]} for k, v in sorted(bysig.items())}
    return ctx.finish("proof")


# ------------------------------------------------------------------------------------------------ comparisons of outputs
def same_outcome(a, b):
    if a[0] != b[0]:
        return False
    if a[0] == "E":
        return a[1] == b[1]
    if a[0] == "F":
        return fclose(a[1], b[1], False)
    return a[1:] == b[1:]


def agree_fn(py, lean):
    """Python lambda outcome vs driver `fn` line."""
    p = lean.split()
    if p[0] == "E":
        if p[1] == "unsupported":
            return True
        return py[0] == "E" and py[1] == p[1]
    if py[0] == "E":
        # the rational model has no overflow / range errors
        return py[1] in ("OverflowError",) and (p[0] == "F" or abs(int(p[1])) > 2 ** 1000 if p[0] == "I" else True)
    if p[0] == "I":
        return py == ("I", int(p[1]))
    if p[0] == "F":
        if py[0] != "F":
            return False
        q = Fraction(p[1])
        if p[2] == "x":
            return Fraction(py[1]) == q if not (math.isinf(py[1]) or py[1] != py[1]) else False
        if math.isinf(py[1]) or py[1] != py[1]:
            return abs(q) > 2 ** 1000
        if q == 0:
            return abs(py[1]) < 1e-300
        return abs(Fraction(py[1]) - q) <= abs(q) * Fraction(1, 10 ** 12)
    return False


def agree_ev(py, lean):
    """compute_value outcome vs driver `ev` line; None = outside the model."""
    p = lean.split()
    if p[0] == "U":
        return None
    if py[0] == "E" and py[1] == "OverflowError":
        return None                 # the rational model has no range errors
    if py[0] == "X":
        return None                 # complex result: outside the model (non-integral float exponent)
    if p[0] == "E":
        if p[1].startswith("raw:"):
            return py[0] == "E" and py[1] == p[1][4:]
        return py[0] == "E" and py[1] == p[1]
    if p[-1] != "x":
        return None                 # some intermediate float is not exactly representable
    if p[0] == "I":
        return py == ("I", int(p[1]))
    if p[0] == "F":
        if py[0] != "F" or math.isinf(py[1]) or py[1] != py[1]:
            return False if py[0] != "E" else None
        return Fraction(py[1]) == Fraction(p[1])
    return False


def judge_builtin(res, acc, supported):
    if res[0] == "E":
        if not is_problog_error(res[2]):
            return "raw-exception"
        if acc is None or O.ERR in acc or not supported:
            return None
        return "spurious-error"
    if acc is None:
        return None
    got = rename(res[1])
    for a in acc:
        if a != O.ERR and rename(a) == got:
            return None
    if all(a == O.ERR for a in acc):
        return None if not supported else "no-error"
    return "solutions"


def show_result(res):
    if res[0] == "E":
        return "%s(%s)" % (res[1], str(res[2])[:60])
    return "[" + "; ".join(",".join(show_term(t) for t in tup) for tup in rename(res[1])) + "]"


def show_accepted(acc):
    if acc is None:
        return "unspecified"
    return " or ".join("error" if a == O.ERR else "[" + "; ".join(",".join(show_term(t) for t in tup) for tup in rename(a)) + "]" for a in acc)


def agree_builtin(res, lean):
    if lean == "U":
        return None
    if res[0] == "T":
        return {True: "true", False: "false"}.get(res[1]) == lean
    if lean.startswith("E "):
        cls = lean[2:]
        if cls.startswith("raw:"):
            cls = cls[4:]
        return res[0] == "E" and res[1] == cls
    if res[0] == "E":
        return False
    x = parse_sexp(lean[2:])
    sols = [[term_of_sexp(t) for t in tup] for tup in x]
    return rename(sols) == rename(res[1])


# ------------------------------------------------------------------------------------------------ replay
def replay(ctx, impl, doc):
    r = doc["replay"]
    if r["kind"] == "arith":
        args = r["args"]
        tree = (r["function"], args)
        out = impl.is_query(tree) if r.get("route") == "is/2" else impl.compute_value(tree)
        acc = O.arith(r["function"], args)
        kind = judge(out, acc, r.get("route") != "is/2")
        print("replay: %s(%s) -> %s; accepted: %s -> %s" % (r["function"], args, show_outcome(out), show_acc(acc), kind or "ok"))
        if kind:
            ctx.fail("%s(%s) gives %s; ISO/SWI/YAP: %s" % (r["function"], args, show_outcome(out), show_acc(acc)), r,
                     {"kind": kind, "function": "%s/%d" % (r["function"], len(args))})
    elif r["kind"] in ("builtin", "typetest"):
        def tup(t):
            return tuple(tup(x) if isinstance(x, list) and x and isinstance(x[0], str) else ([tup(y) for y in x] if isinstance(x, list) else x) for x in t)
        if r["kind"] == "builtin":
            args = [tup(a) for a in r["args"]]
            res = impl.query(r["name"], args)
            n = [0]

            def fresh(k):
                n[0] += k
                return [("v", "fresh%d" % (n[0] - i)) for i in range(k)]
            acc, sup = O.atom_number(args) if r["name"] == "atom_number" else O.builtin(r["name"], args, fresh)
            kind = judge_builtin(res, acc, sup)
            print("replay: %s -> %s; accepted %s -> %s" % (r["name"], show_result(res), show_accepted(acc), kind or "ok"))
            if kind:
                ctx.fail("%s gives %s; Prolog: %s" % (r["name"], show_result(res), show_accepted(acc)), r,
                         {"kind": kind, "builtin": "%s/%d" % (r["name"], len(args)), "mode": r.get("mode")})
        else:
            t = tup(r["term"])
            res = impl.query(r["name"], [t])
            want = O.type_test(r["name"], t)
            got = None if res[0] == "E" else (len(res[1]) == 1)
            print("replay: %s(%s) -> %s, Prolog %s" % (r["name"], show_term(t), got, want))
            if got != want:
                ctx.fail("%s(%s): %s, Prolog: %s" % (r["name"], show_term(t), got, want), r, {"kind": "truth", "builtin": r["name"] + "/1"})
    else:
        print("replay of kind %s: rerun the seed" % r["kind"])
    return ctx.finish("proof")
