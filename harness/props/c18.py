"""C18 — Term equality is an equivalence consistent with hashing (and, on ground terms, with unification).

Tie: hand-written Lean model (lean/ProbLogModel/TermEq.lean) of `==` (operand dispatch, Term/Var/Constant
`__eq__`), of the hashed key, of groundness and of the signature tree used by `unify_value`; compared exactly
with problog.logic / problog.engine_unify on bounded-exhaustive and random pairs of terms built with the public
constructors and by the parser.
Search oracle (independent of the model): the laws themselves evaluated on the real objects — reflexivity,
symmetry, transitivity (all triples of the bounded universe through the real equality matrix), eq => equal
hash, ground eq <=> unify_value succeeds."""
import json

from lib import Infra, q
import pypl_util as U

MODULE = "ProbLogProofs.Properties.C18"
THEOREMS = [
    "ProbLogProofs.C18.C18_refl",
    "ProbLogProofs.C18.C18_symm",
    "ProbLogProofs.C18.C18_trans",
    "ProbLogProofs.C18.C18_eq_hash_structural",
    "ProbLogProofs.C18.C18_ground_eq_iff_unify_partial",
]
REFUTATIONS = [
    "ProbLogProofs.C18.C18_eq_hash_refuted_constant",
    "ProbLogProofs.C18.C18_eq_hash_refuted_var",
    "ProbLogProofs.C18.C18_eq_hash_refuted_not_before_fix",
    "ProbLogProofs.C18.C18_ground_unify_refuted_quoted_atom",
    "ProbLogProofs.C18.C18_ground_unify_refuted_not",
    "ProbLogProofs.C18.C18_ground_unify_refuted_constant_type",
    "ProbLogProofs.C18.C18_ground_unify_refuted_class",
]

MANIFEST = {
    "level": "proof",
    "technique": "Lean 4 theorems about a hand-written model of ==/hash/signature on problog.logic terms + exact "
                 "correspondence on bounded-exhaustive and random term pairs (constructors and parser) + the laws "
                 "evaluated on the real objects",
    "text": "State machine of Term's memo fields (hash, signature, list length, printed form) under hash/signature/str/"
            "functor-assignment histories (lean/ProbLogModel/TermCache.lean): invariant 'every filled memo field holds "
            "the recomputed value' proved for every history (C18_cache_history), so a renamed term observes like a fresh "
            "one; tied by comparing which memo fields are filled after every operation of random histories (model vs "
            "object) plus the fresh-term oracle; the pre-repair setter is refuted in Lean and on the object. "
            "Lean theorems on the model (classes Term, Var, Constant, Not, And, Or, Clause; names of Var/Constant "
            "never equal to the printed form of a compound term): == is reflexive, symmetric and transitive; "
            "equality decided by Term.__eq__ implies equal hash keys once Not.__hash__ ignores the functor "
            "(proposed patch); for ground trees of plain Terms with quote-free functors == coincides with "
            "unification identity. Refutations with witnesses: Constant(1)==Constant('1') and Term('a')==Var('a') "
            "with different hash keys, Not('\\\\+',a)==Not('not',a) with different keys (before the patch) and "
            "not unifiable, Term(\"'a'\")!=Term('a') / f(1)!=f('1') / And(a,b)!=Term(',',a,b) although "
            "unification identifies them. Every run compares the model with the real ==, hash, is_ground and "
            "unify_value on all pairs of a bounded universe and on random/parser-built pairs, and evaluates the "
            "laws on the real objects (all triples for transitivity), also for AggTerm/Object/"
            "AnnotatedDisjunction and for names that clash with printed compound terms (outside the model).",
    "note": "Trusted: Lean kernel, standard axioms, harness and driver glue. The model is hand-written and tied to "
            "the code on the generated inputs only. str() of compound terms and of floats is abstracted (see "
            "TermEq.lean header); inputs outside that abstraction are checked with the oracle only. Hash values are "
            "compared one way (equal model keys => equal Python hashes); a hash collision can only hide, never "
            "cause, a report.",
    "design_ref": "DESIGN.md §6 C18",
}

MODEL_CLASSES = ("T", "V", "C", "N", "A", "O", "CL")


# --------------------------------------------------------------------------- term specs (JSON-able) and builders
def build(s):
    from problog.logic import Term, Var, Constant, Not, And, Or, Clause, AggTerm, Object, AnnotatedDisjunction
    if s is None or type(s) is int:
        return s
    k = s[0]
    if k == "T":
        return Term(s[1], *[build(x) for x in s[2]])
    if k == "V":
        return Var(s[1])
    if k == "C":
        return Constant(s[1])
    if k == "N":
        return Not(s[1], build(s[2]))
    if k == "A":
        return And(build(s[1]), build(s[2]))
    if k == "O":
        return Or(build(s[1]), build(s[2]))
    if k == "CL":
        return Clause(build(s[1]), build(s[2]))
    if k == "AGG":
        return AggTerm(s[1], *[build(x) for x in s[2]])
    if k == "OBJ":
        return Object(s[1])
    if k == "AD":
        return AnnotatedDisjunction([build(x) for x in s[1]], build(s[2]))
    raise Infra("bad spec %r" % (s,))


def spec_of(t):
    """Spec of a real object (parser output); None if a class outside the spec language occurs."""
    from problog.logic import Term, Var, Constant, Not, And, Or, Clause
    if t is None or type(t) is int:
        return t
    ty = type(t)
    if ty is Var:
        return ("V", t.name)
    if ty is Constant:
        return ("C", t.functor)
    subs = [spec_of(a) for a in t.args]
    if any(x is False for x in subs):
        return False
    if ty is Not and len(subs) == 1:
        return ("N", t.functor, subs[0])
    if ty in (And, Or, Clause) and len(subs) == 2:
        return ({And: "A", Or: "O", Clause: "CL"}[ty], subs[0], subs[1])
    if ty is Term:
        return ("T", t.functor, subs)
    return False


def pp(s):
    """Constructor-call text of a spec (the printed form of a term hides its class)."""
    if s is None or type(s) is int:
        return repr(s)
    k = s[0]
    if k in ("T", "AGG"):
        return "%s(%s)" % ("Term" if k == "T" else "AggTerm", ", ".join([repr(s[1])] + [pp(x) for x in s[2]]))
    if k in ("V", "C", "OBJ"):
        return "%s(%r)" % ({"V": "Var", "C": "Constant", "OBJ": "Object"}[k], s[1])
    if k == "N":
        return "Not(%r, %s)" % (s[1], pp(s[2]))
    if k == "AD":
        return "AnnotatedDisjunction([%s], %s)" % (", ".join(pp(x) for x in s[1]), pp(s[2]))
    return "%s(%s, %s)" % ({"A": "And", "O": "Or", "CL": "Clause"}[k], pp(s[1]), pp(s[2]))


def tup(s):
    """Hashable, type-aware key of a spec (1, 1.0 and True are different keys)."""
    if isinstance(s, (list, tuple)):
        return tuple(tup(x) for x in s)
    return (type(s).__name__, s)


def in_model(s):
    if s is None or type(s) is int:
        return True
    k = s[0]
    if k not in MODEL_CLASSES:
        return False
    if k == "T":
        return type(s[1]) is str and all(in_model(x) for x in s[2])
    if k == "V":
        return type(s[1]) is str
    if k == "C":
        v = s[1]
        if type(v) is float:
            return v == v and abs(v) < 1e15 and (v == 0.0 and str(v) == "0.0" or abs(v) >= 1e-3) and (v * 1024).is_integer()
        return type(v) in (int, str)
    if k == "N":
        return type(s[1]) is str and in_model(s[2])
    return all(in_model(x) for x in s[1:])


def enc(s):
    if s is None:
        return "none"
    if type(s) is int:
        return "(iv %d)" % s
    k = s[0]
    if k == "T":
        return "(t %s%s)" % (q(s[1]), "".join(" " + enc(x) for x in s[2]))
    if k == "V":
        return "(v %s)" % q(s[1])
    if k == "C":
        v = s[1]
        return "(c (i %d))" % v if type(v) is int else "(c (f %s))" % U.frac(v) if type(v) is float else "(c (s %s))" % q(v)
    if k == "N":
        return "(n %s %s)" % (q(s[1]), enc(s[2]))
    return "(%s %s %s)" % ({"A": "and", "O": "or", "CL": "cl"}[k], enc(s[1]), enc(s[2]))


def arity0(s):
    return s is not None and type(s) is not int and (s[0] in ("V", "C", "OBJ") or s[0] in ("T", "AGG") and not s[2])


def clash(sa, sb, a, b):
    """A Var/Constant on one side whose printed form equals the printed form of a compound on the other side:
    outside the model's abstraction of str()."""
    for x, sx, y, sy in ((a, sa, b, sb), (b, sb, a, sa)):
        if sx[0] in ("V", "C") and not arity0(sy) and str(x) == str(y):
            return True
    return False


# --------------------------------------------------------------------------- universe
def universe():
    atoms = [("T", "a", []), ("T", "'a'", []), ("T", "b", []), ("T", "1", []), ("C", 1), ("C", "1"), ("C", 1.0),
             ("C", "1.0"), ("C", "a"), ("C", '"a"'), ("C", "'a'"), ("V", "X"), ("V", "a"), ("V", "_"), ("T", "X", []),
             ("T", "[]", []), ("C", 2), ("C", 1.5), ("C", "1.5"), ("T", "''a''", []), ("C", -1), ("V", "1"), ("C", 0.5),
             ("T", "1.0", []), ("C", "b")]
    K = [("T", "a", []), ("T", "'a'", []), ("T", "b", []), ("C", 1), ("C", "1"), ("C", 1.0), ("V", "X"), ("C", "a"), ("T", "1", [])]
    comp = []
    for x in K:
        comp += [("T", "f", [x]), ("N", "\\+", x), ("N", "not", x), ("T", "\\+", [x]), ("T", "not", [x]),
                 ("T", "'f'", [x]), ("T", ".", [x, ("T", "[]", [])])]
    K2 = K[:5]
    for x in K2:
        for y in K2[:3]:
            comp += [("A", x, y), ("O", x, y), ("T", ",", [x, y]), ("T", ";", [x, y]), ("CL", x, y), ("T", ":-", [x, y]),
                     ("T", "f", [x, y])]
    a, b = ("T", "a", []), ("T", "b", [])
    comp += [("T", "f", [None]), ("T", "f", [0]), ("T", "f", [-1]), ("T", "f", [1]), ("T", "f", [None, None]),
             ("T", "g", [("T", "f", [a])]), ("T", "g", [("T", "f", [("T", "'a'", [])])]),
             ("T", "g", [("N", "\\+", a)]), ("T", "g", [("N", "not", a)]),
             ("N", "\\+", ("N", "not", a)), ("N", "not", ("N", "not", a)),
             ("T", "h", [a] * 12), ("T", "h", [a] * 11 + [b]), ("T", "h", [a] * 9 + [b, a, a]),
             ("T", "h", [lst([a] * 4), lst([a] * 4), lst([a] * 4), b]), ("T", "h", [lst([a] * 4), lst([a] * 4), lst([a] * 4), a]),
             lst([a] * 12), lst([a] * 11 + [b]), lst([a, b]), lst([a, ("T", "'b'", [])]), lst([a], ("V", "T")), lst([a], None)]
    return atoms + comp


def lst(xs, tail=("T", "[]", [])):
    for x in reversed(xs):
        tail = ("T", ".", [x, tail])
    return tail


def extended():
    a, b = ("T", "a", []), ("T", "b", [])
    return [("AGG", "a", []), ("AGG", "f", [a]), ("OBJ", 5), ("OBJ", "a"), ("C", 5), ("V", "5"), ("C", "5"),
            ("AD", [a, b], None), ("AD", [a, b], ("T", "c", [])), ("AD", [a], b), ("C", "a; b"), ("V", "a; b"),
            ("C", "f(a)"), ("V", "f(a)"), ("C", "f(1)"), ("T", "f", [("C", 1)]), ("T", "f", [("C", "1")]), ("T", "f", [a]),
            ("C", "\\+a"), ("N", "\\+", a), ("T", "\\+", [a]), ("C", "a, b"), ("A", a, b), ("T", ",", [a, b]), a,
            ("V", "a"), ("C", "a"), ("T", "f(a)", []), ("C", "[a]"), lst([a])]


PARSE = ["a", "'a'", "b", "1", "1.0", "1.5", "\"a\"", "X", "_", "f(a)", "f('a')", "'f'(a)", "f(1)", "f(1.0)", "f(\"1\")", "f(X)",
         "f(_)", "\\+a", "\\+'a'", "not(a)", "f(\\+a)", "(a,b)", "(a;b)", "f((a,b))", "[a]", "[a,b]", "[a|T]", "[]", "f([a,'b'])",
         "a:-b", "a+b", "-1", "- 1", "f(-1)", "g(f(a),X,1)", "'A b'", "f(a,b)", "1+2", "f(a):-b,c"]


def gen_spec(rng, depth):
    r = rng.random()
    if depth <= 0 or r < 0.3:
        k = rng.random()
        if k < 0.45:
            return ("T", rng.choice(["a", "'a'", "b", "1", "[]", "X", "c", "'c'", "1.5"]), [])
        if k < 0.8:
            return ("C", rng.choice([1, "1", 1.0, "1.0", "a", '"a"', 2, 1.5, "1.5", -1, 0, 0.5, "b"]))
        if k < 0.93:
            return ("V", rng.choice(["X", "Y", "_", "a"]))
        return rng.choice([None, 0, -1, 2])
    if r < 0.55:
        return ("T", rng.choice(["f", "g", "'f'", "\\+", "not", ",", ";", ":-", "."]),
                [gen_spec(rng, depth - 1) for _ in range(rng.choice([1, 1, 2, 2, 3]))])
    if r < 0.7:
        return ("N", rng.choice(["\\+", "not"]), nonvar(gen_spec(rng, depth - 1)))
    if r < 0.8:
        return lst([gen_spec(rng, depth - 1) for _ in range(rng.choice([1, 2, 3, 11, 12]))],
                   ("T", "[]", []) if rng.random() < 0.8 else gen_spec(rng, 0))
    k = rng.choice(["A", "O", "CL"])
    return (k, nonvar(gen_spec(rng, depth - 1)), nonvar(gen_spec(rng, depth - 1)))


def nonvar(s):
    return ("T", "v", []) if s is None or type(s) is int else s


def mutate(rng, s):
    """A near-copy: toggles one of the distinctions the property is about."""
    if s is None or type(s) is int:
        return rng.choice([s, None, 0])
    k = s[0]
    r = rng.random()
    if k == "T":
        if s[2] and r < 0.6:
            i = rng.randrange(len(s[2]))
            return ("T", s[1], s[2][:i] + [mutate(rng, s[2][i])] + s[2][i + 1:])
        if r < 0.8:
            f = s[1].strip("'") if s[1].startswith("'") else "'%s'" % s[1]
            return ("T", f, s[2])
        if len(s[2]) == 2 and s[1] in (",", ";", ":-"):
            return ({",": "A", ";": "O", ":-": "CL"}[s[1]], nonvar(s[2][0]), nonvar(s[2][1]))
        if len(s[2]) == 1 and s[1] in ("\\+", "not") and s[2][0] is not None and type(s[2][0]) is not int:
            return ("N", s[1], s[2][0])
        if not s[2]:
            return rng.choice([("C", s[1]), ("V", s[1])])
        return s
    if k == "C":
        v = s[1]
        if type(v) is int:
            return ("C", rng.choice([str(v), float(v), v + 1]))
        if type(v) is float:
            return ("C", rng.choice([str(v), int(v) if v.is_integer() else v]))
        return rng.choice([("T", v, []), ("V", v), ("C", int(v)) if v.lstrip("-").isdigit() else ("T", v, [])])
    if k == "V":
        return rng.choice([("T", s[1], []), ("C", s[1]), ("V", s[1] + "1")])
    if k == "N":
        if r < 0.4:
            return ("N", "not" if s[1] == "\\+" else "\\+", s[2])
        if r < 0.6:
            return ("T", s[1], [s[2]])
        return ("N", s[1], nonvar(mutate(rng, s[2])))
    if r < 0.3:
        return ("T", {"A": ",", "O": ";", "CL": ":-"}[k], [s[1], s[2]])
    if r < 0.65:
        return (k, nonvar(mutate(rng, s[1])), s[2])
    return (k, s[1], nonvar(mutate(rng, s[2])))


# --------------------------------------------------------------------------- classification of failures
def decided_by(a, b):
    """Name of the __eq__ implementation Python runs for `a == b` (reflected-operand rule)."""
    ta, tb = type(a), type(b)
    if tb is not ta and issubclass(tb, ta) and tb.__eq__ is not ta.__eq__:
        return tb.__eq__.__qualname__
    return ta.__eq__.__qualname__


def norm_not(s):
    if s is None or type(s) is int:
        return s
    if s[0] == "N":
        return ("N", "\\+", norm_not(s[2]))
    if s[0] in ("T", "AGG"):
        return (s[0], s[1], [norm_not(x) for x in s[2]])
    if s[0] in ("A", "O", "CL"):
        return (s[0], norm_not(s[1]), norm_not(s[2]))
    return s


def stage(s, level):
    """Cumulative normalisations: 1 = strip quotes from functors, 2 = + constants as atoms, 3 = + classes erased."""
    if s is None or type(s) is int:
        return s
    k = s[0]
    sq = (lambda f: f.strip("'") if type(f) is str else f)
    if k == "C":
        v = sq(s[1]) if type(s[1]) is str else s[1]
        return ("T", str(v), []) if level >= 2 else ("C", v)
    if k == "V":
        return s
    if k == "OBJ":
        return ("T", str(s[1]), []) if level >= 3 else s
    if k in ("T", "AGG"):
        return ("T" if level >= 3 else k, sq(s[1]), [stage(x, level) for x in s[2]])
    if k == "N":
        return ("T", sq(s[1]), [stage(s[2], level)]) if level >= 3 else ("N", sq(s[1]), stage(s[2], level))
    if k in ("A", "O", "CL"):
        f = {"A": ",", "O": ";", "CL": ":-"}[k]
        return ("T", f, [stage(s[1], level), stage(s[2], level)]) if level >= 3 else (k, stage(s[1], level), stage(s[2], level))
    return s


def unifiable(a, b):
    from problog.engine_unify import unify_value, UnifyError
    try:
        unify_value(a, b, {})
        return True
    except UnifyError:
        return False
    except AttributeError:      # AnnotatedDisjunction: a Python list among the arguments; unification not defined
        return None


PRINTED = ("Var.__eq__", "Constant.__eq__")


def root_of(impls, sa=None, sb=None):
    """Root cause class of a failure: an equality decided by comparing printed forms (Var/Constant.__eq__),
    the Not functor that == ignores, or something else."""
    if any(i in PRINTED for i in impls):
        return "printed-form"
    if sa is not None and tup(norm_not(sa)) == tup(norm_not(sb)):
        return "not-functor"
    return "structural"


def laws_pair(sa, sb, a, b):
    """Violations of the pairwise laws on the real objects: list of (what, signature)."""
    out = []
    eab, eba = bool(a == b), bool(b == a)
    if eab != eba:
        impls = sorted([decided_by(a, b), decided_by(b, a)])
        out.append(("%s == %s is %s but %s == %s is %s" % (pp(sa), pp(sb), eab, pp(sb), pp(sa), eba),
                    {"law": "symmetry", "root": root_of(impls), "impl": "/".join(impls)}))
    if eab and hash(a) != hash(b):
        impl = decided_by(a, b)
        out.append(("%s == %s but the hashes differ" % (pp(sa), pp(sb)),
                    {"law": "hash", "root": root_of([impl], sa, sb), "impl": impl}))
    if a.is_ground() and b.is_ground():
        un = unifiable(a, b)
        if un is None:
            return out
        if eab and not un:
            impl = decided_by(a, b)
            out.append(("ground %s == %s but unify_value fails" % (pp(sa), pp(sb)),
                        {"law": "ground-unify", "direction": "eq-not-unify", "cause": root_of([impl], sa, sb), "impl": impl}))
        if un and not eab:
            cause = "other"
            for level, name in ((1, "quoted-atom"), (2, "constant-type"), (3, "class")):
                try:
                    if build(stage(sa, level)) == build(stage(sb, level)):
                        cause = name
                        break
                except Exception:
                    break
            out.append(("ground %s and %s unify but are not ==" % (pp(sa), pp(sb)),
                        {"law": "ground-unify", "direction": "unify-not-eq", "cause": cause}))
    return out


def real_row(a, b):
    return (bool(a == b), bool(b == a), decided_by(a, b), a.is_ground(), b.is_ground())


# --------------------------------------------------------------------------- main
def run(ctx):
    from problog.logic import Term, Not, Var
    ctx.rule = ("a case = one ordered pair of terms (model correspondence + pairwise laws) or one triple of the bounded "
                "universe (transitivity through the real equality matrix); non-trivial = the two terms are not the same spec")
    ctx.proof_phase(MODULE, THEOREMS, refutations=REFUTATIONS)
    ctx.proof_phase("ProbLogProofs.Properties.C18Cache", ["ProbLogProofs.C18.C18_cache_inv_init", "ProbLogProofs.C18.C18_cache_inv_step",
                                                          "ProbLogProofs.C18.C18_cache_history"],
                    refutations=["ProbLogProofs.C18.C18_cache_old_setter_refuted"])
    drv = ctx.driver("Drivers.C18")
    variant = "fix" if hash(Not("\\+", Term("a"))) == hash(Not("not", Term("a"))) else "cur"
    ctx.notes.append("Not.__hash__ variant of the implementation: %s" % variant)

    reported = {}

    known_keys = set()
    witness = {}

    def report(what, replay, sig):
        key = json.dumps(sig, sort_keys=True)
        n = reported[key] = reported.get(key, 0) + 1
        witness.setdefault(key, what[:300])
        if n <= 3 or key in known_keys:   # a defect is hit by many pairs: three witnesses per new signature are kept
            if ctx.fail(what, replay, sig) == "known":
                known_keys.add(key)

    # ------------------------------------------------------------------ inputs
    pairs = []      # (spec_a, spec_b)
    if ctx.replay_in:
        rep = json.load(open(ctx.replay_in))["replay"]
        specs = [detup(x) for x in rep["terms"]]
        U0, ext = specs, []
        pairs = [(x, y) for x in specs for y in specs]
    else:
        U0 = universe()
        ext = extended()
        pairs = [(x, y) for x in U0 for y in U0]
        rng = ctx.sub_rng("random")
        for _ in range(ctx.budget(4000, 150000)):
            s = gen_spec(rng, rng.choice([1, 2, 2, 3]))
            s = nonvar(s)
            t = s
            for _ in range(rng.choice([0, 1, 1, 2])):
                t = nonvar(mutate(rng, t))
            pairs.append((s, t))
        # parser-built terms against each other and against their constructor-built specs
        parsed = []
        for txt in PARSE:
            try:
                obj = Term.from_string(txt)
            except Exception as e:
                raise Infra("parser rejected %r: %s" % (txt, e))
            sp = spec_of(obj)
            if sp is False:
                ctx.count("parser term outside the spec language")
                continue
            parsed.append(sp)
            ctx.count("parser term")
        pairs += [(x, y) for x in parsed for y in parsed]
        pairs += [(x, y) for x in parsed for y in U0[:40]] + [(y, x) for x in parsed for y in U0[:40]]
    ctx.sample({"universe": len(U0), "extended": len(ext), "pairs": len(pairs),
                "example": [repr(build(p)) for p in pairs[len(U0) + 3][:2]] if len(pairs) > len(U0) + 3 else []})

    # ------------------------------------------------------------------ pairs: model correspondence + laws
    lines, rows, whats = [], [], []
    first_diff = None
    hash_collisions = 0
    objs = {}

    def obj(s):
        k = tup(s)
        if k not in objs:
            objs[k] = build(s)
        return objs[k]

    for sa, sb in pairs:
        a, b = obj(sa), obj(sb)
        same_spec = tup(sa) == tup(sb)
        ctx.case("p:%r|%r" % (sa, sb), nontrivial=not same_spec)
        for what, sig in laws_pair(sa, sb, a, b):
            report(what, {"terms": [sa, sb]}, sig)
        if same_spec:
            c = build(sb)       # a structurally identical copy: reflexivity must not depend on object identity
            if not (a == a) or not (a == c) or not (c == a):
                report("%s is not == to itself / to an identical copy" % pp(sa), {"terms": [sa]}, {"law": "reflexivity"})
            elif hash(a) != hash(c):
                report("identical copies of %s hash differently" % pp(sa), {"terms": [sa]}, {"law": "hash", "root": "copy", "impl": "copy"})
        if in_model(sa) and in_model(sb):
            if clash(sa, sb, a, b):
                ctx.count("pair outside the model: name clashes with a printed compound")
                continue
            ctx.count("pair in model")
            lines.append("pair %s %s %s" % (variant, enc(sa), enc(sb)))
            rows.append((sa, sb, a, b))
        else:
            ctx.count("pair outside the model (class/float)")
    if drv is not None and lines:
        model = drv.run(lines)
        for (sa, sb, a, b), m in zip(rows, model):
            t = U.parse_sexp(m)
            if not isinstance(t, list) or len(t) != 7:
                raise Infra("driver output %r" % m)
            meab, meba, mimpl, mh, mga, mgb, mun = t
            r = real_row(a, b)
            mine = (meab == "true", meba == "true", U.unq(mimpl), mga == "true", mgb == "true")
            diff = None
            if mine != r:
                diff = "model (eq_ab, eq_ba, impl, ground_a, ground_b) = %s, implementation %s" % (mine, r)
            elif r[3] and r[4] and (mun == "true") != unifiable(a, b):
                diff = "model unify-identical = %s, unify_value says %s" % (mun, unifiable(a, b))
            elif mh == "true" and hash(a) != hash(b):
                diff = "model hash keys equal, Python hashes differ"
            elif mh != "true" and hash(a) == hash(b):
                hash_collisions += 1        # allowed (e.g. hash(-1) == hash(-2)); never a disagreement
            if diff and first_diff is None:
                first_diff = ("%s vs %s" % (pp(sa), pp(sb)), diff)

    # ------------------------------------------------------------------ transitivity: all triples of the universe (+ extended)
    if not ctx.replay_in or len(U0) >= 3:
        V = U0 + ext
        O = [obj(s) for s in V]
        n = len(V)
        E = [[bool(O[i] == O[j]) for j in range(n)] for i in range(n)]
        ntr = 0
        for i in range(n):
            for j in range(n):
                if not E[i][j]:
                    continue
                for k in range(n):
                    if E[j][k]:
                        ntr += 1
                        if not E[i][k]:
                            impls = sorted({decided_by(O[i], O[j]), decided_by(O[j], O[k]), decided_by(O[i], O[k])})
                            report("%s == %s and %s == %s but %s != %s" % (pp(V[i]), pp(V[j]), pp(V[j]), pp(V[k]), pp(V[i]), pp(V[k])),
                                   {"terms": [V[i], V[j], V[k]]},
                                   {"law": "transitivity", "root": root_of(impls), "impl": "+".join(impls)})
        ctx.case("triples", n=ntr)
        ctx.count("triples with a==b and b==c", ntr)
        # pairwise laws on the extended objects (classes / names outside the model)
        for i in range(len(U0), n):
            for j in range(n):
                for x, y in ((i, j), (j, i)):
                    ctx.case("x:%r|%r" % (V[x], V[y]))
                    ctx.count("pair extended (oracle only)")
                    for what, sig in laws_pair(V[x], V[y], O[x], O[y]):
                        report(what, {"terms": [V[x], V[y]]}, sig)

    # ------------------------------------------------------------------ histories: a term renamed AFTER it was hashed
    # (`Term.functor` has a public setter, used by program.py for negated heads and clausedb.py for scoped terms; the
    # term reached by hash -> rename is a term like any other and must obey "== implies equal hashes")
    hist = [s for s in U0 if type(s) in (list, tuple) and s and s[0] == "T" and type(s[1]) is str]
    if not ctx.replay_in:
        hrng = ctx.sub_rng("rename-histories")
        for _ in range(ctx.budget(300, 5000)):
            s = nonvar(gen_spec(hrng, hrng.choice([1, 2])))
            if type(s) in (list, tuple) and s[0] == "T" and type(s[1]) is str:
                hist.append(s)
    for s in hist:
        for newf in ("g", "_scope_" + s[1], s[1]):
            ctx.case("rename:%r->%s" % (s, newf))
            ctx.count("rename history (hash, set functor, compare with a fresh term)")
            try:
                a = build(s)
                fresh = build(("T", newf, s[2]))
                if not (a.functor == s[1] and fresh.functor == newf):
                    continue      # constructor normalised the functor: not a plain rename
                hash(a), a.signature, a.is_ground(), str(a)
                a.functor = newf
                bad = []
                v = Var(str(fresh))
                if bool(v == a) != bool(v == fresh) or bool(a == v) != bool(fresh == v):
                    bad.append("a Var named like the fresh term is == exactly one of two == terms (stale printed form)")
                if not (a == fresh and fresh == a):
                    bad.append("renamed term is not == the freshly built one")
                elif hash(a) != hash(fresh):
                    bad.append("renamed term == fresh term but the hashes differ")
                if a.signature != fresh.signature:
                    bad.append("signature of the renamed term is stale (%s vs %s)" % (a.signature, fresh.signature))
                wa, wf = Term("w", a, a), Term("w", fresh, fresh)
                if wa == wf and hash(wa) != hash(wf):
                    bad.append("compounds over the renamed / fresh term are == but hash differently")
                if {fresh: 1}.get(a) != 1 and a == fresh:
                    bad.append("dict lookup with the renamed term misses the equal fresh key")
            except Exception as e:
                if ctx.implementation_exception(e) if hasattr(ctx, "implementation_exception") else False:
                    continue
                raise
            for b in bad[:1]:
                report("%s hashed, then .functor = %r: %s" % (pp(s), newf, b),
                       {"terms": [s, ("T", newf, s[2])], "history": ["build", "hash", "set functor %s" % newf, "compare with fresh"]},
                       {"law": "hash", "root": "rename-history", "impl": "Term.functor.setter"})

    # ------------------------------------------------------------------ memo-field state machine (lean/ProbLogModel/TermCache.lean)
    # random histories of hash / signature / str / functor-assignment: after every operation the set of filled memo
    # fields of the real object must be the model's, and the final object must hash / print / compare like a fresh term
    cache_diff = None
    if drv is not None and not ctx.replay_in:
        crng = ctx.sub_rng("cache-histories")
        names = [".", "g", "h2", "_s_f"]           # name id 0 is the list functor
        H = []
        for _ in range(ctx.budget(400, 20000)):
            f0 = crng.randrange(len(names))
            tail_list = crng.random() < 0.5
            ops = []
            for _ in range(crng.randrange(1, 9)):
                o = crng.choice("hsrf")
                ops.append(("f", crng.randrange(len(names))) if o == "f" else (o,))
            H.append((f0, tail_list, ops))
        hl = ["hist %d %d %s" % (f0, 1 if tl else 0, " ".join("(f %d)" % o[1] if o[0] == "f" else o[0] for o in ops)) for f0, tl, ops in H]
        model_out = drv.run(hl)
        for (f0, tl, ops), line, mo in zip(H, hl, model_out):
            ctx.case("cache:" + line)
            ctx.count("memo-field history (model vs object, presence after each op)")
            tail = Term(".", Term("b"), Term("[]")) if tl else Term("[]")
            a = Term(names[f0], Term("a"), tail)
            cur, seen = names[f0], []
            for o in ops:
                if o[0] == "h":
                    hash(a)
                elif o[0] == "s":
                    a.signature
                elif o[0] == "r":
                    str(a)
                else:
                    cur = names[o[1]]
                    a.functor = cur
                seen.append("".join("1" if x is not None else "0" for x in
                                    (a._Term__hash, a._Term__signature, a._cache_list_length, a.repr)))
            if ",".join(seen) != mo and cache_diff is None:
                cache_diff = (line, "object %s, model %s" % (",".join(seen), mo))
            fresh = Term(cur, Term("a"), tail)
            if a == fresh and (hash(a) != hash(fresh) or str(a) != str(fresh) or a.signature != fresh.signature):
                report("history %s: the object is == a fresh %s but hash/str/signature differ" % (line, fresh),
                       {"terms": [], "history": line},
                       {"law": "hash", "root": "rename-history", "impl": "Term.functor.setter"})
        if cache_diff:
            ctx.disagree("TermCache model vs problog.logic.Term memo fields", "%s: %s" % cache_diff)
        ctx.obligation("correspondence: memo-field presence after each op, model = object on %d histories" % len(H),
                       cache_diff is None, "" if cache_diff is None else "first difference: %s" % (cache_diff,))

    if first_diff:
        ctx.disagree("TermEq model vs problog.logic", "%s: %s" % first_diff)
    ctx.obligation("correspondence: model(%s) = implementation on %d pairs (==, dispatch, is_ground, unify, hash one way)"
                   % (variant, len(lines)), first_diff is None and drv is not None,
                   "" if first_diff is None else "first difference: %s" % first_diff[0])
    ctx.extra["not_hash_variant"] = variant
    ctx.extra["hash_collisions_allowed"] = hash_collisions
    ctx.extra["failures_by_signature"] = reported
    ctx.extra["first_witness_by_signature"] = witness
    return ctx.finish("proof")


def detup(x):
    if isinstance(x, list):
        if x and isinstance(x[0], str) and x[0] in ("T", "AGG"):
            return (x[0], x[1], [detup(y) for y in x[2]])
        if x and isinstance(x[0], str) and x[0] == "AD":
            return ("AD", [detup(y) for y in x[1]], detup(x[2]))
        if x and isinstance(x[0], str) and x[0] in ("V", "C", "OBJ"):
            return tuple(x)
        if x and isinstance(x[0], str):
            return tuple([x[0]] + [detup(y) if isinstance(y, list) else y for y in x[1:]])
    return x
