"""C10 — compiled d-DNNF is a valid, equivalent circuit.

dsharp itself is an external binary and is NOT modelled: every .nnf it produces in this run is checked by the Lean
validator `DDNNF.validate` (decomposable / smooth / deterministic through the decision variable), whose soundness
(`validate = ok -> evaluation = weighted model count`) is a Lean theorem; equivalence with the CNF is decided in
polynomial time from theorems: every CNF clause is entailed (count of circuit models falsifying it = 0, driver op
ENTAILS) and the model counts agree (circuit count by evaluation in N, CNF count from Clark uniqueness:
2^(free atoms) * prod(|group|+1)).  The loader `_load_nnf` and the evaluator are modelled and compared exactly.
Search oracle (Python): exhaustive model enumeration for <= 16 variables."""
import itertools
import re

import spine
from lib import close

MODULE = "ProbLogProofs.Properties.C10"
THEOREMS = [
    "ProbLogProofs.C10.C10_eval_is_wmc",
    "ProbLogProofs.C10.C10_line_is_wmc",
    "ProbLogProofs.C10.C10_impliesLit_sound",
    "ProbLogProofs.C10.C10_decomposable",
    "ProbLogProofs.C10.C10_smooth_deterministic",
    "ProbLogProofs.C10.C10_count",
    "ProbLogProofs.C10.C10_entails",
    "ProbLogProofs.C10.C10_equiv_sets",
    "ProbLogProofs.C10.C10_equiv",
    "ProbLogProofs.C10.C10_query_trick",
    "ProbLogProofs.C10.C10_setValue_weights",
    "ProbLogProofs.C10.C10_query_trick_setValue",
    "ProbLogProofs.C10.C05_hom",
    "ProbLogProofs.C10.C05_hom_ring",
]

MODULE_BRIDGE = "ProbLogProofs.Properties.C10Bridge"
THEOREMS_BRIDGE = [
    "ProbLogProofs.C10.C10_evalCArr_eq",
    "ProbLogProofs.C10.C10_line2node_literal",
    "ProbLogProofs.C10.C10_nodeWeights_eq_evalLines",
    "ProbLogProofs.C10.C10_nodeWeights_compound",
    "ProbLogProofs.C10.C10_rootWeight_eq_evalC",
    "ProbLogProofs.C10.C10_rootWeight_is_wmc",
    "ProbLogProofs.C10.C10_rootWeight_single_literal",
    "ProbLogProofs.C10.C10_rootWeight_single_negative",
    "ProbLogProofs.C10.C10_loadNnf_carry",
    "ProbLogProofs.C10.C10_prepare_ok",
    "ProbLogProofs.C10.C10_evidence_weights",
    "ProbLogProofs.C10.C10_evaluate_is_conditional_wmc",
    "ProbLogProofs.C10.C01_extractWeights_spec",
    "ProbLogProofs.C10.C01_loaded_table",
    "ProbLogProofs.C10.C01_pipeline_downstream",
    "ProbLogProofs.C10.C01_pipeline_downstream_atoms",
]

MANIFEST = {
    "level": "translation_validation",
    "technique": "per-instance validation of dsharp's output by an executable Lean validator with a proved soundness "
                 "theorem (evaluation = weighted model count in any commutative semiring) + exact correspondence of the "
                 "modelled loader/evaluator with ddnnf_formula.py",
    "text": "Every d-DNNF produced in the run is validated by the Lean checker (decomposable, smooth, deterministic), "
            "shown to entail every CNF clause and to have the CNF's model count; the loaded DDNNF object (nodes, names, "
            "weights, constraints) and the evaluator's numbers are compared with the Lean model of _load_nnf / "
            "SimpleDDNNFEvaluator. Lean also proves, for every validated circuit, that the MODELLED loader + evaluator "
            "return the conditional weighted model count (C10_rootWeight_is_wmc, C10_evaluate_is_conditional_wmc) and that "
            "AD constraints/weights are carried over (C10_loadNnf_carry). dsharp is not modelled: the claim is per compiled "
            "instance.",
    "note": "Trusted: Lean kernel + standard axioms; harness; the validator's soundness theorems are listed in the "
            "evidence obligation list (those not yet discharged are named there). Floats compared with exact rationals at 1e-9.",
    "design_ref": "DESIGN.md §4.3, §6 C10",
}


def ser_cnf(cnf, m):
    ws = ["(%d %s)" % (i, spine.w2s(w)) for i, w in cnf.get_weights().items()]
    names = ["(%s %s %s)" % (spine.label_s(l), m.name(n), spine.k2s(k)) for n, k, l in cnf.get_names_with_label()]
    adl = []
    for c in cnf.constraints():
        if type(c).__name__ == "ConstraintAD":
            adl.append("(%d (%s) %s)" % (m.group(c.group), " ".join(str(x) for x in sorted(c.nodes)),
                                         "-" if c.extra_node is None else c.extra_node))
    return "(store (opts f f f f 0 f) (nodes ) (weights %s) (names %s) (ads %s))" % (" ".join(ws), " ".join(names), " ".join(adl))


def parse_circuit(txt):
    out = []
    for mm in re.finditer(r"\((L|A|O)([^()]*)\)", txt):
        t = mm.group(2).split()
        if mm.group(1) == "L":
            out.append(("L", int(t[0])))
        elif mm.group(1) == "A":
            out.append(("A", [int(x) for x in t]))
        else:
            out.append(("O", int(t[0]), [int(x) for x in t[1:]]))
    return out


def circuit_models(circ, nvars):
    """Set of satisfying assignments (tuples of bools over 1..nvars) + semantic d-DNNF checks. <= 16 vars."""
    problems = []
    varsets = []
    for nd in circ:
        if nd[0] == "L":
            varsets.append({abs(nd[1])})
        else:
            cs = nd[1] if nd[0] == "A" else nd[2]
            vs = set()
            for c in cs:
                if nd[0] == "A" and vs & varsets[c]:
                    problems.append("AND children share variables")
                vs |= varsets[c]
            if nd[0] == "O" and any(varsets[c] != vs for c in cs):
                problems.append("OR not smooth")
            varsets.append(vs)
    models = set()
    for bits in itertools.product([False, True], repeat=nvars):
        vals = []
        for nd in circ:
            if nd[0] == "L":
                v = bits[abs(nd[1]) - 1]
                vals.append(v if nd[1] > 0 else not v)
            elif nd[0] == "A":
                vals.append(all(vals[c] for c in nd[1]))
            else:
                tv = [vals[c] for c in nd[2]]
                if sum(tv) > 1:
                    problems.append("OR children not mutually exclusive")
                vals.append(any(tv))
        if vals and vals[-1]:
            models.add(bits)
    return models, problems, (varsets[-1] if varsets else set())


def cnf_models(clauses, nvars):
    ms = set()
    for bits in itertools.product([False, True], repeat=nvars):
        if all(any((bits[x - 1] if x > 0 else not bits[-x - 1]) for x in cl) for cl in clauses):
            ms.add(bits)
    return ms


def expected_count(cnf):
    """Model count of Clark's completion + AD constraints by the theorems: each assignment of the atoms has exactly one
    extension; AD groups allow exactly one of nodes+extra."""
    natoms = len(cnf.get_weights())
    ingroup = set()
    prod = 1
    for c in cnf.constraints():
        if type(c).__name__ == "ConstraintAD" and len(c.nodes) > 1:
            members = set(c.nodes) | {c.extra_node}
            ingroup |= members
            prod *= len(members)
    return (2 ** (natoms - len(ingroup))) * prod


def handbuilt_stream(rng, n):
    """Yield (description, problem or None): formulas built through the LogicDAG API (atoms with or without labels, with
    or without compound nodes - without them the CNF has no clauses and `_compile` builds the circuit itself), compiled,
    and EVERY atom and every label evaluated: a d-DNNF that is smooth over all variables of the CNF gives each atom its own
    weight, whether or not it carries a label."""
    from problog.formula import LogicDAG
    from problog.cnf_formula import CNF
    from problog.ddnnf_formula import DDNNF
    from problog.logic import Term
    for _ in range(n):
        dag = LogicDAG()
        k = rng.randint(1, 5)
        ps = [rng.randint(1, 9) / 10.0 for _ in range(k)]
        atoms = [dag.add_atom("a%d" % i, ps[i]) for i in range(k)]
        desc = ["atom a%d %.1f" % (i, ps[i]) for i in range(k)]
        extra = []
        if rng.random() < 0.4 and k >= 2:
            i, j = rng.sample(range(k), 2)
            nd = dag.add_and((atoms[i], -atoms[j])) if rng.random() < 0.5 else dag.add_or((atoms[i], atoms[j]))
            want = ps[i] * (1 - ps[j]) if type(dag.get_node(nd)).__name__ == "conj" else 1 - (1 - ps[i]) * (1 - ps[j])
            dag.add_name(Term("c"), nd, dag.LABEL_QUERY)
            extra.append(("c", nd, want))
            desc.append("c = %s(a%d, %sa%d) query" % (type(dag.get_node(nd)).__name__, i, "-" if type(dag.get_node(nd)).__name__ == "conj" else "", j))
        for i in range(k):
            if rng.random() < 0.4:
                neg = rng.random() < 0.3
                dag.add_name(Term("n%d" % i), -atoms[i] if neg else atoms[i], dag.LABEL_QUERY)
                desc.append("label n%d = %sa%d" % (i, "-" if neg else "", i))
        d = "; ".join(desc)
        try:
            dd = DDNNF.create_from(CNF.create_from(dag))
            ev = dd.get_evaluator()
            res = dd.evaluate()
        except Exception as e:
            yield d, "compilation/evaluation raised %s: %s" % (type(e).__name__, str(e)[:80])
            continue
        problem = None
        for nm, v in res.items():
            nm = str(nm)
            if nm == "c":
                want = extra[0][2]
            else:
                i = int(nm[1:])
                neg = "label %s = -a%d" % (nm, i) in desc
                want = (1 - ps[i]) if neg else ps[i]
            if abs(float(v) - want) > 1e-9:
                problem = "label %s evaluates to %r, expected %r" % (nm, v, want)
        # every atom of the CNF, labelled or not, through the evaluator's own node interface
        names = {str(n): key for n, key, l in dd.get_names_with_label()}
        cnf_of = {}
        try:
            # only for the clause-free case: there `_compile` numbers the circuit's atoms like the CNF's variables, which
            # are the DAG's atoms in creation order (a circuit loaded from dsharp output has its own numbering)
            for i, a in enumerate(atoms if not extra else []):
                w = dd.get_evaluator().evaluate(a)
                if abs(float(w) - ps[i]) > 1e-9 and problem is None:
                    problem = "atom a%d (node %d, %s) evaluates to %r in the compiled circuit, its weight is %r" % (
                        i, a, "labelled" if any(("= a%d" % i) in x or ("= -a%d" % i) in x for x in desc) else "no label", w, ps[i])
        except Exception as e:
            if problem is None:
                problem = "evaluating an atom node raised %s: %s" % (type(e).__name__, str(e)[:80])
        yield d, problem


def constraint_stream(rng, n):
    """Yield (src, problem or None): compile CNFs that carry a TrueConstraint / ClauseConstraint on query nodes."""
    from problog.constraint import TrueConstraint, ClauseConstraint, ConstraintAD
    from problog.ddnnf_formula import DDNNF
    from problog.evaluator import SemiringProbability
    done = 0
    tries = 0
    while done < n and tries < 6 * n:
        tries += 1
        P = spine.gen_program(rng, evidence=False)
        src = spine.to_src(P)
        st = spine.run_pipeline(src, keep_nnf=False, timeout=20)
        if st.error or st.cnf.is_trivial():
            continue
        qnodes = [(str(nm), k) for nm, k, l in st.cnf.get_names_with_label() if l == st.cnf.LABEL_QUERY and k]
        if not qnodes:
            continue
        done += 1
        nm, k = rng.choice(qnodes)
        # a fresh CNF object with the extra constraint
        from problog.cnf_formula import CNF
        cnf = CNF.create_from(st.dag)
        if rng.random() < 0.6 or len(qnodes) < 2:
            cons = TrueConstraint(k)
            cnodes = [k]
        else:
            nm2, k2 = rng.choice(qnodes)
            cons = ClauseConstraint([k, k2])
            cnodes = [k, k2]
        cnf.add_constraint(cons)
        try:
            dd = spine.with_timeout(20, DDNNF.create_from, cnf)
        except Exception as e:
            yield src, None
            continue
        copies = [c for c in dd.constraints() if type(c).__name__ == type(cons).__name__]
        if len(copies) != 1:
            yield src + " %% + %s" % cons, "constraint %s not carried over to the d-DNNF (found %d copies)" % (cons, len(copies))
            continue
        # renamed node ids must point at the d-DNNF atoms that stand for the same CNF variables
        ident2node = {}
        for i, nd in enumerate(dd._nodes, 1):
            if type(nd).__name__ == "atom":
                ident2node[nd.identifier] = i
        got = [copies[0].node] if isinstance(copies[0], TrueConstraint) else list(copies[0].nodes)
        exp = [(1 if c > 0 else -1) * ident2node.get(abs(c), None) if ident2node.get(abs(c)) else None for c in cnodes]
        if None not in exp and sorted(got) != sorted(exp):
            yield src + " %% + %s" % cons, "constraint %s copied with node ids %s, the d-DNNF atoms of its variables are %s" % (cons, got, exp)
            continue
        # semantics: with TrueConstraint(p) the normalised probability of p is 1
        if isinstance(cons, TrueConstraint) and None not in exp:
            try:
                r = dd.evaluate(semiring=SemiringProbability())
                v = r.get([t for t in r if str(t) == nm][0]) if any(str(t) == nm for t in r) else None
                if v is not None and abs(v - 1.0) > 1e-9:
                    yield src + " %% + %s" % cons, "P(%s | constraint '%s is true') = %r, expected 1" % (nm, nm, v)
                    continue
            except Exception as e:
                if type(e).__name__ not in ("InconsistentEvidenceError",):
                    yield src + " %% + %s" % cons, "evaluation with constraint %s raised %s" % (cons, type(e).__name__)
                    continue
        yield src, None


def run(ctx):
    ctx.rule = ("CNFs of generated programs (C01 fragment) compiled with the bundled dsharp; a case = one compiled CNF; "
                "distinct = distinct DIMACS text; non-trivial = at least one OR line in the .nnf")
    ctx.proof_phase(MODULE, THEOREMS)
    ctx.proof_phase(MODULE_BRIDGE, THEOREMS_BRIDGE)
    drv = ctx.driver("Drivers.Spine")
    rng = ctx.sub_rng("programs")
    nprog = ctx.budget(120, 2500)
    lines, meta = [], []
    problems = []
    nbig = ctx.budget(25, 400)
    import glob
    import os
    from lib import VERIF
    corpus = [open(f).read() for f in sorted(glob.glob(os.path.join(VERIF, "corpus", "C10", "*.pl")))]
    for i in range(-len(corpus), nprog + nbig):
        if i < 0:
            P = None   # pinned corpus programs run first
        elif i < nprog:
            P = spine.gen_program(rng)
        else:
            # larger ground programs (3 constants, more probabilistic rules): beyond what world enumeration can check,
            # but the validator / entailment / count checks are polynomial
            P = spine.gen_program(rng, big=True)
        src = corpus[i + len(corpus)] if P is None else spine.to_src(P)
        st = spine.run_pipeline(src, propagate_evidence=rng.random() < 0.3, keep_nnf=True, timeout=20)
        if st.error and st.error[0] in ("parse", "ground", "cycles", "clark"):
            ctx.count("skipped:" + st.error[1])
            continue
        if not hasattr(st, "ddnnf"):
            ctx.count("no-ddnnf:" + (st.error[1] if st.error else "?"))
            continue
        m = spine.Mapper()
        spine.ser_store(st.dag, m)  # fix the name/identifier numbering from the DAG
        s_dd = spine.ser_store(st.ddnnf, m, raw_ident=True)
        if st.nnf_text is None:
            ctx.count("trivial-cnf")
        else:
            circ = parse_circuit(st.nnf_text)
            nors = sum(1 for nd in circ if nd[0] == "O")
            ctx.case(st.dimacs, nontrivial=nors > 0)
            ctx.programs += 1
            ctx.count("compiled")
            if len(ctx.samples) < 3:
                ctx.sample({"src": src, "nnf_lines": len(circ), "or_nodes": nors})
            clauses = [c for c in st.cnf._contents()[1]]
            lines.append("NNF %s" % st.nnf_text)
            meta.append(("NNF", src, (st.cnf.atomcount, expected_count(st.cnf))))
            lines.append("ENTAILS %s (%s)" % (st.nnf_text, " ".join("(%s)" % " ".join(map(str, c)) for c in clauses)))
            meta.append(("ENTAILS", src, len(clauses)))
            lines.append("LOAD %s %s" % (st.nnf_text, ser_cnf(st.cnf, m)))
            meta.append(("LOAD", src, spine.canon_store(s_dd)))
            # independent oracle
            nv = st.cnf.atomcount
            if nv <= ctx.budget(12, 16):
                cm, pr, rootvars = circuit_models(circ, nv)
                if pr:
                    problems.append((src, "circuit is not a d-DNNF: %s" % sorted(set(pr))))
                elif len(rootvars) == nv and cm != cnf_models(clauses, nv):
                    problems.append((src, "circuit models differ from CNF models"))
                elif len(rootvars) != nv:
                    # variables not mentioned are free: compare projections
                    free = [v for v in range(1, nv + 1) if v not in rootvars]
                    ctx.count("circuit-omits-variables")
                    cmods = cnf_models(clauses, nv)
                    ext = set()
                    for mdl in cm:
                        ext.add(mdl)
                    # circuit_models enumerates all nv variables already, so omitted variables are unconstrained there
                    if cm != cmods:
                        problems.append((src, "circuit models differ from CNF models (with free variables %s)" % free))
        if st.error is None or st.error[0] == "evaluate":
            lines.append("EVAL %s" % s_dd)
            if st.error is None:
                exp = {m.name(k): float(v) for k, v in st.results.items()}
            else:
                exp = "error " + st.error[1].replace("Error", "") if st.error[1] != "InvalidValue" else "error InvalidValue"
            meta.append(("EVAL", src, exp))
    # ---- constraints other than AD constraints (TrueConstraint / ClauseConstraint, as the MAP / MPE tasks add them):
    # they must be carried over to the d-DNNF with node ids renamed to the d-DNNF's atoms, and the evaluator must then
    # normalise (P(p | constraint "p is true") = 1).  Python-side oracle only (the Lean loader model covers AD constraints).
    for k, (src, problem) in enumerate(constraint_stream(rng, ctx.budget(20, 300))):
        ctx.count("constraint-carry case")
        if problem:
            problems.append((src, problem, "non-AD constraint"))
    for d, problem in handbuilt_stream(rng, ctx.budget(60, 1500)):
        ctx.count("hand-built formula case")
        ctx.case("handbuilt " + d)
        if problem:
            problems.append((d, problem, "hand-built formula"))
    first_diff = None
    verdicts = {}
    if drv is not None:
        outs = drv.run(lines)
        for out, (op, src, exp) in zip(outs, meta):
            ok = True
            if op == "NNF":
                mm = re.match(r"(ok|bad|undecided)(.*?) vars \(([^)]*)\) count (\d+)$", out)
                if not mm:
                    ok = False
                else:
                    verdicts[mm.group(1)] = verdicts.get(mm.group(1), 0) + 1
                    nvars, cnt = exp
                    nroot = len(mm.group(3).split())
                    count = int(mm.group(4)) * (2 ** (nvars - nroot))
                    if mm.group(1) == "bad":
                        why = re.sub(r"^\s*\d+\s*", "", mm.group(2)).strip().strip('"')
                        problems.append((src, "dsharp output rejected by the validator: %s (line %s; circuit count %d, CNF count %d)" % (
                            why, mm.group(2).split()[0], count, cnt), why))
                    elif mm.group(1) == "undecided":
                        ctx.count("validator-undecided")
                    elif count != cnt:
                        problems.append((src, "model count %d of the circuit differs from the CNF's %d" % (count, cnt)))
            elif op == "ENTAILS":
                counts = out.strip("()").split()
                if len(counts) != exp:
                    ok = False
                elif any(c != "0" for c in counts):
                    problems.append((src, "circuit has a model falsifying CNF clause #%d" % [c != "0" for c in counts].index(True)))
            elif op == "LOAD":
                ok = spine.canon_store(out) == exp
                if not ok:
                    out = spine.canon_store(out)
            elif op == "EVAL":
                if isinstance(exp, str):
                    ok = out.startswith("error") and (exp.split()[1][:8].lower() in out.lower())
                else:
                    got = {a: float(spine.F(b)) for a, b in re.findall(r"\(([^()\s]+) ([^()\s]+)\)", out)}
                    ok = set(got) == set(exp) and all(close(exp[k], got[k]) for k in exp)
                    if not ok:
                        out = str(got)
            if not ok and first_diff is None:
                first_diff = (op, src, str(out)[:1200], str(exp)[:1200])
    ctx.extra["validator_verdicts"] = verdicts
    seen = set()
    for pr in problems:
        src, what = pr[0], pr[1]
        why = pr[2] if len(pr) > 2 else ""
        sig = {"kind": "ddnnf", "what": what.split(":")[0], "why": why}
        if (sig["what"], why) in seen:
            continue
        seen.add((sig["what"], why))
        ctx.fail("%s (program: %s)" % (what, src[:700].replace("\n", " ")), {"src": src, "what": what}, sig)
    if first_diff:
        op, src, got, exp = first_diff
        ctx.disagree("%s model vs implementation" % op, "program %s | model %s | implementation %s" % (src[:400], got, exp))
    ctx.obligation("correspondence: loader/evaluator model = implementation on %d artefacts" % len(meta),
                   first_diff is None and drv is not None, "" if first_diff is None else first_diff[0])
    # rejected circuits are concrete failures (handled above, possibly as known findings); an UNDECIDED verdict means
    # the validator's syntactic conditions no longer cover what dsharp emits: the property is then not shown
    ctx.obligation("validator decided every dsharp output (%s)" % verdicts, verdicts.get("undecided", 0) == 0, str(verdicts))
    return ctx.finish("translation_validation")
