"""C29 — extending a prepared database is equivalent to preparing the union.

Proof: Lean theorems about a hand-written model of problog/clausedb.py's node table / heads / parent+offset /
node redirects (lean/ProbLogModel/ClauseDB.lean): refinement of the per-predicate clause lists, parent untouched,
redirect consistency at any depth of extension.
Tie: random histories (root, children, siblings, grandchildren; facts, probabilistic facts, rules, probabilistic
rules, annotated disjunctions, query facts; new and existing predicates) are run on real ClauseDB objects through the
public API and on the compiled Lean model; raw node tables, heads, redirect maps, `get_node` of every index and the
clause list of every predicate are compared exactly.
Search (independent of the Lean model): the answers and probabilities of every database of a history against a fresh
preparation of the union program text, and of every parent before/after its extensions were filled."""
import json
import time

import clausedb_util as U
from lib import Infra, close

MODULE = "ProbLogProofs.Properties.C29"
THEOREMS = [
    "ProbLogProofs.C29.C29_wf_reachable",
    "ProbLogProofs.C29.C29_refines",
    "ProbLogProofs.C29.C29_refines_any",
    "ProbLogProofs.C29.C29_log_sound",
    "ProbLogProofs.C29.C29_parent_unchanged",
    "ProbLogProofs.C29.C29_redirect_consistent_chain",
    "ProbLogProofs.C29.C29_redirect_consistent",
    "ProbLogProofs.C29.C29_groups_fresh",
]
REFUTATIONS = ["ProbLogProofs.C29.C29_redirect_consistent_V0_refuted", "ProbLogProofs.C29.C29_groups_fresh_V0_refuted"]

MANIFEST = {
    "level": "proof",
    "technique": "Lean 4 theorems about a hand-written model of ClauseDB (node table, heads, parent/offset, redirects, "
                 "_add_head/_add_define_node/_compile) + exact structural correspondence of model and implementation "
                 "on random extension histories + differential search against a fresh preparation of the union program",
    "text": "Lean theorems (all databases reachable from an empty root by extend and statement adds, any depth): the "
            "clause list of every predicate in an extension is the parent's list followed by the ids of the added "
            "clauses in order (C29_refines), no operation changes the parent field or writes below the offset and the "
            "only possible failure is the AccessError of a builtin head (C29_parent_unchanged), every head index of a "
            "predicate along the ancestor chain resolves to the extension's current definition "
            "(C29_redirect_consistent[_chain]), the group id of a new annotated disjunction differs from every group "
            "id in the database and its ancestors (C29_groups_fresh). Every run replays random histories on real ClauseDB objects and on the "
            "compiled model (node tables, heads, redirects, get_node of every index, clause lists compared exactly) "
            "and compares answers/probabilities of every extension with a fresh prepare of the union text and of "
            "every parent before/after.",
    "note": "Trusted: Lean kernel, standard axioms, harness/driver glue, the hand-written model (tied to the code only "
            "on the histories run). The model's get_node and AD group id are the repaired ones "
            "(repo_patches/C29_grandchild_redirect.diff, C29_ad_group_id.diff); for the code as written before the "
            "repairs redirect consistency and group freshness are refuted in Lean (C29_redirect_consistent_V0_refuted, "
            "C29_groups_fresh_V0_refuted) and both witnesses are replayed on the real code on every run; the harness "
            "detects which variant the implementation has and ties the model's V0 observables (getNodeV0/defsV0, group "
            "ids shifted by the offset) to it, so the structural correspondence stays meaningful before the repairs. "
            "Not modelled: node payloads other than signatures/node references/group ids, ClauseIndex argument indexing (C13), scoping, alias redirects of use_module beyond the builtin "
            "prelude (theorems are about databases whose redirects all come from _add_head).",
    "design_ref": "DESIGN.md §6 C29",
}


# --------------------------------------------------------------------------------------- correspondence
def builtin_table(it):
    b = U.engine().get_builtins()
    out = []
    for f, a in (("true", 0), ("call", 1)):
        v = b.get("%s/%d" % (f, a))
        if v is None or v >= 0:
            raise Infra("builtin %s/%d not found in the engine's table" % (f, a))
        out.append("(%s %d)" % (it.sig(f, a), -v))
    return " ".join(out)


def correspondence_case(hist, tag, variant, bad_tail, gv0=False):
    """Protocol lines for the model and the expected outputs computed from the real implementation.

    Returns (lines, expected) where expected[i] is None (not compared), a string (exact) or ('prefix', str).
    An exception of the implementation that the model does not predict becomes an expected value `EXC:<class>`
    (which no model output equals), and the case ends there."""
    lines, exp = [], []
    try:
        _correspondence_case(hist, tag, variant, bad_tail, gv0, lines, exp)
    except Infra:
        raise
    except Exception as e:
        lines.append("dump %sd0" % tag)
        exp.append("EXC:%s: %s" % (type(e).__name__, str(e)[:120]))
    return lines[:len(exp)], exp[:len(lines)]


def _correspondence_case(hist, tag, variant, bad_tail, gv0, lines, exp):
    from problog.program import PrologString
    from problog.clausedb import ClauseDB
    eng = U.engine()
    it = U.Interner()
    dbs = []
    name = lambda j: "%sd%d" % (tag, j)

    def emit(line, e):
        lines.append(line)
        exp.append(e)

    failed = False
    for j, d in enumerate(hist):
        if d["parent"] < 0:
            db = ClauseDB(builtins=eng.get_builtins())
            emit("new %s %s" % (name(j), builtin_table(it)), "ok")
            pre = True
        else:
            pdb = dbs[d["parent"]]
            pre = U.loads_prelude(pdb)
            db = pdb.extend()
            emit("extend %s %s" % (name(j), name(d["parent"])), "ok")
        if pre:
            for l in U.prelude_ops(name(j), it):
                emit(l, None)
        if d["parent"] < 0 and d.get("via") != "api":
            # the public way: prepare() = ClauseDB.createFrom(program): a fresh ClauseDB that receives every statement
            text = "\n".join(U.stmt_s(st) for st in d["stmts"]) + "\n"
            db = eng.prepare(PrologString(text))
            for st in d["stmts"]:
                for l in U.stmt_ops(name(j), st, it):
                    emit(l, None)
        else:
            for st in d["stmts"]:
                for cl in U.parse_stmts(U.stmt_s(st) + "\n"):
                    db += cl
                for l in U.stmt_ops(name(j), st, it):
                    emit(l, ("prefix", "ok %d " % len(db)))
        dbs.append(db)
        emit("dump %s" % name(j), U.impl_dump(db, it, gv0))
    if bad_tail:
        # error stream: a clause whose head is a builtin -> AccessError (last operation of the history)
        j = len(hist) - 1
        try:
            for cl in U.parse_stmts("true :- %s.\n" % U.atom_s(bad_tail)):
                dbs[j] += cl
            r = "ok"
        except Exception as e:
            r = "err " + type(e).__name__
        emit("clause %s %s (c %s)" % (name(j), it.sig("true", 0), it.sig(bad_tail[0], len(bad_tail[1]))), r)
        failed = True
    sigs = U.all_sigs(hist)
    for j, d in enumerate(hist):
        if failed and j == len(hist) - 1:
            continue  # the implementation keeps the nodes appended before the exception; the model does not
        db = dbs[j]
        emit("dump %s" % name(j), U.impl_dump(db, it, gv0))
        for i in range(len(db)):
            emit("%s %s %d" % ("node" if variant == "repaired" else "node0", name(j), i),
                 U.impl_node(db, i, it, gv0))
        emit("node %s %d" % (name(j), len(db)), "err IndexError")
        for f, a in sigs:
            emit("%s %s %s" % ("defs" if variant == "repaired" else "defs0", name(j), it.sig(f, a)),
                 U.impl_defs(db, f, a))


def detect_variant():
    """Which `get_node` does the implementation have? Replays the witness of C29_redirect_consistent_V0_refuted."""
    from problog.clausedb import ClauseDB
    from problog.logic import Term
    eng = U.engine()
    root = ClauseDB(builtins=eng.get_builtins())
    root += Term("p", Term("a"))
    d = root.find(Term("p", None))
    child = root.extend()
    child += Term("p", Term("b"))
    gc = child.extend()
    gc += Term("p", Term("c"))
    n = len(gc.get_node(d).children)
    full = len(gc.get_node(gc.find(Term("p", None))).children)
    if full != 3:
        return "unknown", (n, full)
    return ("repaired" if n == 3 else "v0" if n == 2 else "unknown"), (n, full)


def detect_group_variant():
    """Group id of an annotated disjunction compiled into an extension: `len(self)` (repaired) or `len(self.__nodes)`?"""
    from problog.clausedb import ClauseDB
    from problog.logic import Term, AnnotatedDisjunction, Constant
    eng = U.engine()
    root = ClauseDB(builtins=eng.get_builtins())
    root += Term("p", Term("a"))
    child = root.extend()
    n0 = len(child)
    child += AnnotatedDisjunction([Term("x", p=Constant(0.2)), Term("y", p=Constant(0.3))], Term("true"))
    groups = sorted(set(child.get_node(i).group for i in range(n0, len(child))
                        if type(child.get_node(i)).__name__ == "choice"))
    if groups == [n0]:
        return "repaired", groups
    if groups == [n0 - len(root)]:
        return "v0", groups
    return "unknown", groups


# --------------------------------------------------------------------------------------- search (spec vs implementation)
def check_history(hist):
    """Problems of one history on the real code: list of (kind, db index, depth, detail)."""
    from problog.program import PrologString
    problems = []
    try:
        dbs = []
        before = {}
        has_q = []
        eng = U.engine()
        for j, d in enumerate(hist):
            text = "\n".join(U.stmt_s(st) for st in d["stmts"]) + "\n"
            if d["parent"] < 0:
                if d.get("via") == "api":
                    from problog.clausedb import ClauseDB
                    db = ClauseDB(builtins=eng.get_builtins())
                    for cl in U.parse_stmts(text):
                        db += cl
                else:
                    db = eng.prepare(PrologString(text))
            else:
                db = dbs[d["parent"]].extend()
                for cl in U.parse_stmts(text):
                    db += cl
            dbs.append(db)
            depth = len(U.chain(hist, j))
            hq = any(st["k"] == "query" for k in U.chain(hist, j) for st in hist[k]["stmts"])
            has_q.append(hq)
            # queries on the database right after it was filled, against a fresh preparation of the union
            r = U.evaluate_queries(db, d["queries"])
            rq = U.evaluate_db(db) if hq else None
            before[j] = (r, rq, U.impl_dump(db, U.Interner()))
            udb = U.engine().prepare(PrologString(U.union_text(hist, j)))
            ru = U.evaluate_queries(udb, d["queries"])
            if not U.same_result(r, ru, close):
                problems.append(("answers-differ", j, depth, "queries %s: extension %s, union %s" % (
                    [U.atom_s(q) for q in d["queries"]], r, ru)))
            if hq:
                ruq = U.evaluate_db(udb)
                if not U.same_result(rq, ruq, close):
                    problems.append(("answers-differ", j, depth, "query/1 facts: extension %s, union %s" % (rq, ruq)))
        # parents: unchanged by everything that happened in their descendants
        parents = sorted(set(d["parent"] for d in hist if d["parent"] >= 0))
        for j in parents:
            r0, rq0, dump0 = before[j]
            if U.impl_dump(dbs[j], U.Interner()) != dump0:
                problems.append(("parent-changed", j, len(U.chain(hist, j)), "node table / heads / redirects changed"))
            r1 = U.evaluate_queries(dbs[j], hist[j]["queries"])
            if not U.same_result(r0, r1, close):
                problems.append(("parent-changed", j, len(U.chain(hist, j)), "answers before %s, after %s" % (r0, r1)))
            if has_q[j]:
                rq1 = U.evaluate_db(dbs[j])
                if not U.same_result(rq0, rq1, close):
                    problems.append(("parent-changed", j, len(U.chain(hist, j)),
                                     "query/1 answers before %s, after %s" % (rq0, rq1)))
    except Infra:
        raise
    except Exception as e:  # building a database must not fail on these programs
        problems.append(("build-exception", len(hist) - 1, 0, "%s: %s" % (type(e).__name__, e)))
    return problems


def shrink_history(hist, kind, deadline):
    """Greedy delta-debugging: drop leaf databases, statements, queries, body literals while a problem of `kind` stays
    (candidates tried after `deadline` count as not failing, so shrinking stops there)."""
    def fails(h):
        if time.time() > deadline:
            return False
        return any(p[0] == kind for p in check_history(h))

    def drop_db(h, j):
        if any(d["parent"] == j for d in h) or j == 0:
            return None
        out = []
        for k, d in enumerate(h):
            if k == j:
                continue
            d2 = dict(d)
            if d2["parent"] > j:
                d2["parent"] -= 1
            out.append(d2)
        return out

    cur = json.loads(json.dumps(hist))
    changed = True
    rounds = 0
    while changed and rounds < 6:
        changed = False
        rounds += 1
        for j in range(len(cur) - 1, 0, -1):
            c = drop_db(cur, j)
            if c and fails(c):
                cur, changed = c, True
        for j in range(len(cur)):
            i = len(cur[j]["stmts"]) - 1
            while i >= 0:
                c = json.loads(json.dumps(cur))
                del c[j]["stmts"][i]
                if fails(c):
                    cur, changed = c, True
                i -= 1
            i = len(cur[j]["queries"]) - 1
            while i >= 0:
                c = json.loads(json.dumps(cur))
                del c[j]["queries"][i]
                if fails(c):
                    cur, changed = c, True
                i -= 1
            for si, st in enumerate(cur[j]["stmts"]):
                if "b" in st and len(st["b"]) > 1:
                    bi = len(st["b"]) - 1
                    while bi >= 0 and len(cur[j]["stmts"][si]["b"]) > 1:
                        c = json.loads(json.dumps(cur))
                        del c[j]["stmts"][si]["b"][bi]
                        if fails(c):
                            cur, changed = c, True
                        bi -= 1
    return cur


def describe(hist):
    return " || ".join("db%d<-%d: %s ?- %s" % (j, d["parent"], " ".join(U.stmt_s(st) for st in d["stmts"]),
                                                 ", ".join(U.atom_s(q) for q in d["queries"])) for j, d in enumerate(hist))


def run(ctx):
    import warnings
    warnings.filterwarnings("ignore")
    ctx.rule = ("a case = one history (root database + 1..3 extensions forming a tree, each with a segment of generated "
                "statements and queries); distinct = distinct history texts; non-trivial = at least one extension adds a "
                "clause to a predicate that an ancestor defines")
    ctx.proof_phase(MODULE, THEOREMS, refutations=REFUTATIONS)
    drv = ctx.driver("Drivers.C29")
    ctx.notes.append("lean phase %.1fs" % (time.time() - ctx.t0))
    try:
        variant, vinfo = detect_variant()
    except Exception as e:
        variant, vinfo = "unknown", "%s: %s" % (type(e).__name__, e)
    ctx.notes.append("implementation's get_node: %s (children seen through a stale head index / current head: %s)" % (
        variant, vinfo))
    ctx.obligation("implementation's get_node is the modelled (repaired) one", variant == "repaired",
                   "variant %s %s: redirect consistency is refuted for it (C29_redirect_consistent_V0_refuted)" % (
                       variant, vinfo))

    try:
        gvariant, ginfo = detect_group_variant()
    except Exception as e:
        gvariant, ginfo = "unknown", "%s: %s" % (type(e).__name__, e)
    ctx.notes.append("implementation's AD group id: %s %s" % (gvariant, ginfo))
    ctx.obligation("implementation's annotated-disjunction group id is the modelled (repaired) one: len(self)",
                   gvariant == "repaired", "variant %s %s: freshness is refuted for it (C29_groups_fresh_V0_refuted)" % (
                       gvariant, ginfo))
    gv0 = gvariant == "v0"

    def nontrivial(h):
        for j, d in enumerate(h):
            if d["parent"] < 0:
                continue
            anc = set(x for k in U.chain(h, j)[:-1] for st in h[k]["stmts"] for x in U.heads_of(st))
            if any(x in anc for st in d["stmts"] for x in U.heads_of(st)):
                return True
        return False

    def account(h, stream):
        ctx.case(stream + describe(h), nontrivial=nontrivial(h))
        ctx.count("histories:" + stream)
        ctx.count("databases", len(h))
        ctx.count("depth>=3 (grandchild)", sum(1 for j in range(len(h)) if len(U.chain(h, j)) >= 3))
        for d in h:
            for st in d["stmts"]:
                ctx.count("stmt:" + st["k"])

    # ---------------------------------------------------------------- replay
    if ctx.replay_in:
        rep = json.load(open(ctx.replay_in))["replay"]
        hists = [rep["history"]]
        ncorr = 0
    else:
        hists = None

    # ---------------------------------------------------------------- model vs implementation
    first_diff = None
    ncorr_done = 0
    if drv is not None:
        rng = ctx.sub_rng("correspondence")
        n = ctx.budget(150, 6000)
        cases = [(U.WITNESS_GRANDCHILD, None), (U.WITNESS_AD_GROUP, None)]
        if hists is not None:
            cases = [(hists[0], None)]
        else:
            for _ in range(n):
                h = U.gen_history(rng)
                bad = None
                if rng.random() < 0.1:
                    bad = ["f0", []]
                cases.append((h, bad))
        chunk = 25
        tc = time.time()
        ccap = ctx.budget(20.0, 300.0)
        for c0 in range(0, len(cases), chunk):
            lines, exp, owner = [], [], []
            for ci, (h, bad) in enumerate(cases[c0:c0 + chunk]):
                l, e = correspondence_case(h, "h%d" % ci, variant if variant != "unknown" else "repaired", bad, gv0)
                lines += l
                exp += e
                owner += [c0 + ci] * len(l)
                account(h, "correspondence")
                if bad:
                    ctx.count("error stream: clause for a builtin head")
            out = drv.run(lines)
            ncorr_done += len(cases[c0:c0 + chunk])
            for k, (o, e) in enumerate(zip(out, exp)):
                ok = True
                if e is None:
                    ok = o.startswith("ok ")
                elif isinstance(e, tuple):
                    ok = o.startswith(e[1])
                else:
                    ok = (o == e)
                if not ok and first_diff is None:
                    first_diff = (cases[owner[k]][0], lines[k], o, e)
            if first_diff:
                break
            if time.time() - tc > ccap:
                ctx.notes.append("correspondence stopped by the wall-clock cap after %d of %d histories" % (
                    ncorr_done, len(cases)))
                break
        ctx.notes.append("correspondence phase %.1fs" % (time.time() - tc))
        ctx.sample({"correspondence_history": describe(cases[min(1, len(cases) - 1)][0])[:600]})
    if first_diff:
        h, line, o, e = first_diff
        ctx.disagree("ClauseDB model vs problog.clausedb", "op `%s`: model `%s`, implementation `%s`; history %s" % (
            line, o[:400], str(e)[:400], describe(h)[:1200]))
    ctx.obligation("correspondence: model = implementation on %d histories (node tables, heads, redirects, get_node, defs)"
                   % ncorr_done, first_diff is None and drv is not None,
                   "" if first_diff is None else "first difference at `%s`" % first_diff[1])

    # ---------------------------------------------------------------- search: extension vs fresh union, parent before/after
    rng = ctx.sub_rng("search")
    n = ctx.budget(40, 2500)
    cap = ctx.budget(40.0, 600.0)
    t0 = time.time()
    todo = [U.WITNESS_GRANDCHILD, U.WITNESS_AD_GROUP] if hists is None else hists
    if hists is None:
        todo = todo + [U.gen_history(rng) for _ in range(n)]
    found = {}
    nsearch = 0
    for h in todo:
        if time.time() - t0 > cap and nsearch > 5:
            ctx.notes.append("search stopped by the wall-clock cap after %d of %d histories" % (nsearch, len(todo)))
            break
        probs = check_history(h)
        nsearch += 1
        account(h, "search")
        for p in probs:
            ctx.count("problem:" + p[0])
            key = (p[0], min(p[2], 3))
            if key not in found:
                found[key] = (h, p)
    ctx.notes.append("search phase %.1fs" % (time.time() - t0))
    ctx.sample({"search_history": describe(todo[min(1, len(todo) - 1)])[:600]})
    reported = set()
    shrink_deadline = time.time() + ctx.budget(30.0, 300.0)
    for (kind, depth), (h, p) in sorted(found.items(), key=lambda kv: (kv[0][1], kv[0][0]))[:3]:
        small = shrink_history(h, kind, shrink_deadline)
        ps = [q for q in check_history(small) if q[0] == kind]
        if not ps:  # flaky: keep the original
            small, ps = h, [p]
        q = ps[0]
        if describe(small) in reported:
            continue
        reported.add(describe(small))
        sig = {"kind": q[0], "depth": "child" if q[2] <= 2 else "grandchild+"}
        ctx.fail("%s at db%d (depth %d): %s; history: %s" % (q[0], q[1], q[2], q[3][:500], describe(small)[:1500]),
                 {"history": small, "problem": list(q), "union_text": U.union_text(small, q[1])}, sig)
    ctx.obligation("search: %d histories, every extension agrees with the fresh union and every parent is unchanged" % nsearch,
                   not found, "; ".join("%s depth %d" % k for k in sorted(found)))
    return ctx.finish("proof")
