"""C05 — all exact compilation backends and semirings agree.

Backends available in this sandbox: the default choice and `ddnnf` (dsharp) for DSP semirings, `LogicNNF` for semirings
that are not declared DSP. PySDD is not installed, so sdd / sddx / fsdd / bdd / fbdd cannot be executed here (listed as
unavailable configurations in the evidence, not as covered). Semirings: probability, log-probability, a user-defined copy
of the probability semiring, its neutral-sum (NSP) variant, and the symbolic semiring whose expression
is evaluated exactly. Every run is compared with the Lean specification `Sem`.
Lean: evaluation of a validated circuit is the weighted model count in ANY commutative semiring (C10_eval_is_wmc) and
semiring homomorphisms commute with evaluation (C05_hom, C05_hom_ring)."""
import random

import cfgprop
import spine

MODULE = "ProbLogProofs.Properties.C05"
THEOREMS = ["ProbLogProofs.C05.C05_spec_base"]
HOM = [("ProbLogProofs.Properties.C10", ["ProbLogProofs.C10.C05_hom", "ProbLogProofs.C10.C05_hom_ring",
                                         "ProbLogProofs.C10.C10_eval_is_wmc"])]

MANIFEST = {
    "level": "proof",
    "technique": "Lean 4 theorems: circuit evaluation = weighted model count in any commutative semiring, and semiring "
                 "homomorphisms commute with evaluation; every available backend x semiring run on generated programs is "
                 "compared with the Lean specification Sem",
    "text": "The semiring-generic theorems (C10_eval_is_wmc, C05_hom, C05_hom_ring) explain why all semirings that are "
            "homomorphic images of the probability semiring agree; the real backends/semirings available here are run on "
            "generated programs and each compared with the specification value. SDD/BDD back ends cannot be executed "
            "(PySDD absent).",
    "note": "Trusted: Lean kernel; harness; floats at 1e-9. Unavailable configurations: sdd, sddx, fsdd, bdd, fbdd. The "
            "log-semiring's exp/log identities are covered by C12.",
    "design_ref": "DESIGN.md §6 C05",
}


def variants(P, seed):
    rng = random.Random(seed)
    src = spine.to_src(P)
    out = []
    # Note: a semiring that does not declare is_dsp() is evaluated on the plain NNF (LogicNNF), which is only meaningful
    # for idempotent sums; a probability semiring is DSP, so the user-defined copies declare it (as the repository's own
    # test_system.py wrappers do). The non-DSP path is therefore not part of this property.
    for kc, sr in (("default", None), ("ddnnf", "prob"), ("ddnnf", "log"), ("auto", "custom"), ("ddnnf", "custom"),
                   ("auto", "nsp"), ("auto", "symbolic")):
        out.append(("%s/%s" % (kc, sr or "default"), src, {"kc": kc, "semiring": sr,
                                                          "ground": {"propagate_evidence": rng.random() < 0.3}}))
    # the same program with every probability label written as an arithmetic expression of the same value
    # ((0.15+0.15)::f, (1-0.7)::f): the label reaches `semiring.value` as a compound term
    esrc = expr_labels(src, rng)
    out.append(("exprlabel/default", esrc, {"kc": "default", "semiring": None, "ground": {}}))
    out.append(("exprlabel/symbolic", esrc, {"kc": "auto", "semiring": "symbolic", "ground": {}}))
    return out


def expr_labels(src, rng):
    import re
    from decimal import Decimal

    def rep(m):
        p = Decimal(m.group(1))
        k = rng.randrange(3)
        if k == 0:
            return "(%s+%s)::" % (p / 2, p - p / 2)
        if k == 1:
            return "(1-%s)::" % (1 - p)
        return "(%s*0.5)::" % (p * 2)
    return re.sub(r"(?<![\w.])(\d+\.\d+)::", rep, src)


def gen(rng, **kw):
    """The shared generator plus two shapes that matter for semiring-specific code paths: a query that grounds to TRUE
    next to evidence (the evaluators special-case node 0, and the neutral-sum variant must still normalise), and very
    small probabilities (a joint probability below the 1e-12 "is zero" tolerance of the probability semiring while the
    evidence itself is well above it: every semiring must still report the same conditional probability)."""
    P = spine.gen_program(rng, **kw)
    from fractions import Fraction as F
    r = rng.random()
    if r < 0.35:
        P["preds"]["dt"] = (0, 0)
        P["stmts"].insert(rng.randrange(len(P["stmts"]) + 1), ("fact", ("dt", ())))
        P["queries"].insert(rng.randrange(len(P["queries"]) + 1), ("dt", ()))
    elif r < 0.6:
        idx = [i for i, st in enumerate(P["stmts"]) if st[0] == "pf"]
        rng.shuffle(idx)
        idx = idx[:rng.randint(2, 3)]
        for i in idx:
            P["stmts"][i] = ("pf", F(1, 10 ** rng.choice([6, 7, 8])), P["stmts"][i][2])
        P["tiny"] = True
        if len(idx) >= 2 and rng.random() < 0.7:
            # rare evidence (one tiny fact) and a query that needs a second tiny fact as well: P(q, e) is below 1e-12,
            # P(e) is not, P(q | e) is about 1e-7
            a1, a2 = P["stmts"][idx[0]][2], P["stmts"][idx[1]][2]
            lvl = 1 + max(l for a, l in P["preds"].values())
            P["preds"]["tq"] = (0, lvl + 1)
            others = [st[2] for i, st in enumerate(P["stmts"]) if st[0] == "pf" and i not in idx]
            if others and rng.random() < 0.7:
                # the evidence is a DERIVED atom (a conjunction node of the circuit), not a fact
                P["preds"]["te"] = (0, lvl)
                P["stmts"].append(("rule", ("te", ()), [("pos", a1), ("pos", rng.choice(others))]))
                P["evidence"] = [(("te", ()), True)]
                P["stmts"].append(("rule", ("tq", ()), [("pos", ("te", ())), ("pos", a2)]))
            else:
                P["evidence"] = [(a1, True)]
                P["stmts"].append(("rule", ("tq", ()), [("pos", a1), ("pos", a2)]))
            P["queries"].append(("tq", ()))
    return P


def run(ctx):
    from problog import get_evaluatables
    try:
        import problog
        avail = {n: problog._evaluatables[n].is_available() if hasattr(problog._evaluatables[n], "is_available") else True
                 for n in get_evaluatables()}
    except Exception:
        avail = {}
    ctx.extra["evaluatables"] = {k: bool(v) for k, v in avail.items()}
    ctx.extra["unavailable_configurations"] = sorted(k for k, v in avail.items() if not v)
    ctx.rule = ("generated programs x {default, ddnnf, auto-selected} x {probability, log-probability, user-defined "
                "probability copy, NSP variant, symbolic}; non-trivial = at least one query instance and "
                "more than one world")
    return cfgprop.run(ctx, MODULE, THEOREMS, variants, nq=50, nt=700, level="proof", explanation=None, extra_modules=HOM,
                       gen=gen)
