"""C13 — deterministic programs agree with standard Prolog, including findall order.

No Prolog system is installed: the reference is the Lean SLD interpreter `ProbLogModel.SLD.solveSt` (proved sound
w.r.t. the inductive least-model semantics) run in the compiled driver, cross-checked on every case by an independent
Python SLD interpreter (harness/sld_util.py).  `ClauseIndex.find` (first-argument style indexing) is modelled exactly
(lean/ProbLogModel/ClauseIndex.lean, the code after repo_patches/C13_clause_index.diff) and proved to return the
matching clauses in program order; the real `ClauseIndex.find` is compared with the model on generated predicates and
monitored at run time during every engine run.

Pinned regression corpus corpus/C13/dup_agree.json (tools/gen_c13_corpus.py): deterministic findall programs whose Prolog
list contains duplicates and whose answer the tree reproduced exactly when the corpus was built; replayed first on every
run, a changed outcome is a `corpus-regression` (not maskable by the known finding about collapsed duplicates)."""
import json
import re
import time

from lib import Infra, REPO
import sld_util as U

MODULE = "ProbLogProofs.Properties.C13"
THEOREMS = [
    "ProbLogProofs.C13.C13_sld_sound",
    "ProbLogProofs.C13.C13_sld_answers_extend",
    "ProbLogProofs.C13.C13_unify_sound",
    "ProbLogProofs.C13.C13_bottomup_sound",
    "ProbLogProofs.C13.C13_sld_complete_partial",
    "ProbLogProofs.C13.C13_naf_sound_partial",
    "ProbLogProofs.C13.C13_index_order",
]
REFUTATIONS = ["ProbLogProofs.C13.C13_index_order_unfixed_refuted"]

MANIFEST = {
    "level": "proof",
    "technique": "Lean 4: SLD interpreter (the Prolog stand-in) proved sound w.r.t. the inductive least-model semantics; "
                 "exact model of ClauseIndex.find proved to return the matching clauses in program order; "
                 "correspondence of both with problog on generated programs; independent Python SLD / bottom-up oracles",
    "text": "Lean theorems: every answer of the SLD interpreter (depth-first, clause order, NAF, findall) is derivable in "
            "the least-model semantics; bottom-up evaluation is sound; the model of ClauseIndex.find returns exactly the "
            "clauses whose head may match the call, in program order, without modifying the index. Every run compares "
            "DefaultEngine().query / findall lists of problog with the Lean interpreter and an independent Python SLD "
            "interpreter on generated pure programs (facts, compound terms, rules, conjunction/disjunction, negation, "
            "findall, lists, structural recursion), tabled answer sets of recursive programs with a bottom-up evaluator, "
            "and the real ClauseIndex.find with its Lean model (plus a run-time monitor of every find call).",
    "note": "Trusted: Lean kernel, standard axioms, harness/driver glue, and that the Lean SLD interpreter is Prolog's "
            "strategy (no SWI/Yap available; it is cross-checked by an independent Python interpreter). Completeness of "
            "SLD search is proved for ground (propositional) positive programs only (C13_sld_complete_partial). "
            "Known findings (tabling semantics): findall order/duplicates deviate from Prolog when one answer has several "
            "proofs or a predicate mixes facts and rules.",
    "design_ref": "DESIGN.md §6 C13",
}

WITNESS_INDEX = "p(X,1). p(a,2). p(b,3). p(Y,4). q(L) :- findall(Y, p(a,Y), L)."


# --------------------------------------------------------------------------------------------- problog side
def tojson(x):
    if isinstance(x, tuple):
        return [tojson(a) for a in x]
    return x


def fromjson(x):
    if isinstance(x, list):
        return tuple(fromjson(a) for a in x)
    return x


class IndexMonitor:
    """Wraps ClauseIndex.find for the duration of an engine run: every result must list exactly the clauses whose
    head key may match the call, in the order of the clause list, and repeated calls must agree."""

    def __init__(self):
        self.problems = []
        self.calls = 0

    def __enter__(self):
        from problog import clausedb
        from problog.logic import is_ground
        self.cls = clausedb.ClauseIndex
        self.orig = self.cls.find
        mon = self

        def find(ci, arguments):
            res = mon.orig(ci, arguments)
            mon.calls += 1
            try:
                got = list(res)
                parent = ci._ClauseIndex__parent
                erased = ci._ClauseIndex__erased
                exp = []
                for item in list.__iter__(ci):
                    if item in erased:
                        continue
                    try:
                        args = parent.get_node(item).args
                    except AttributeError:
                        args = None
                    ok = True
                    if args is not None:
                        for a, b in zip(arguments, args):
                            if is_ground(a) and is_ground(b) and str(a) != str(b):
                                ok = False
                                break
                    if ok:
                        exp.append(item)
                if got != exp and len(mon.problems) < 5:
                    mon.problems.append("find(%s) returned clause nodes %s, program order of the matching clauses is %s" % (
                        ", ".join(str(a) for a in arguments), got, exp))
            except Infra:
                raise
            return res
        self.cls.find = find
        return self

    def __exit__(self, *a):
        self.cls.find = self.orig


class Timeout(Exception):
    pass


def _alarm(signum, frame):
    raise Timeout()


def run_problog(prog, q, limit=4.0):
    """Answers of `q` (a term) as canonical terms, in the order returned by the engine. Returns (answers, problems).
    Raises Timeout when the engine needs more than `limit` seconds (cost, not correctness: the case is skipped)."""
    import signal
    from problog.program import PrologString
    from problog.engine import DefaultEngine
    from problog.logic import Term
    src = U.pl_program(prog)
    eng = DefaultEngine()
    old = signal.signal(signal.SIGALRM, _alarm)
    signal.setitimer(signal.ITIMER_REAL, limit)
    try:
        with IndexMonitor() as mon:
            db = eng.prepare(PrologString(src))
            res = eng.query(db, U.to_problog(q))
    finally:
        signal.setitimer(signal.ITIMER_REAL, 0)
        signal.signal(signal.SIGALRM, old)
    name = q if isinstance(q, str) else q[1]
    return [U.canon_vars(U.from_problog(Term(name, *r))) for r in res], mon.problems


def lists_in(t, acc):
    if U.is_cmp(t):
        if t[1] == '.':
            it = U.list_items(t)
            if it is not None:
                acc.append(it)
        for a in t[2]:
            lists_in(a, acc)
    return acc


def dedup_lists(t):
    """Remove repeated elements (keep first occurrences) and sort, in every list inside t."""
    if U.is_cmp(t):
        if t[1] == '.' and len(t[2]) == 2:
            it = U.list_items(t)
            if it is not None:
                seen = []
                for x in it:
                    x = dedup_lists(x)
                    if x not in seen:
                        seen.append(x)
                return U.mklist(sorted(seen, key=repr))
        return ('f', t[1], tuple(dedup_lists(a) for a in t[2]))
    return t


def goal_calls(g, acc, inside):
    """Signatures called by goal g; `inside` = only calls inside findall goals."""
    k = g[0]
    if k == 'call':
        if inside:
            acc.add(U.sig(g[1]))
    elif k in ('and', 'or'):
        goal_calls(g[1], acc, inside)
        goal_calls(g[2], acc, inside)
    elif k == 'not':
        goal_calls(g[1], acc, inside)
    elif k == 'findall':
        goal_calls(g[2], acc, True)
    return acc


def features(prog, sld):
    """(some list of the reference answer has duplicates,
        a predicate reachable from a findall goal has a clause that is not a ground fact,
        some predicate has >= 2 clauses)."""
    ls = []
    for a in sld:
        lists_in(a, ls)
    dup = any(len(set(map(repr, l))) < len(l) for l in ls)
    bysig = {}
    for n, h, b in prog:
        # problog stores a ground fact as a fact node; non-ground facts and rules become clause nodes
        bysig.setdefault(U.sig(h), []).append((b == U.TRUE and not U.term_vars(h), b))
    reach = set()
    for n, h, b in prog:
        goal_calls(b, reach, False)
    todo = list(reach)
    while todo:
        s = todo.pop()
        for isfact, b in bysig.get(s, ()):
            for s2 in goal_calls(b, set(), True):
                if s2 not in reach:
                    reach.add(s2)
                    todo.append(s2)
    nonfact = any(not isfact for s in reach for isfact, _ in bysig.get(s, ()))
    multi = any(len(v) >= 2 for v in bysig.values())
    return dup, nonfact, multi


def classify(prog, sld, pb):
    """Compare ordered answer lists. Returns None (agree) or a signature dict."""
    if pb == sld:
        return None
    dup, mixed, multi = features(prog, sld)
    key = lambda xs: sorted(map(repr, xs))
    if key([U.sort_lists(x) for x in pb]) == key([U.sort_lists(x) for x in sld]):
        # same answers, the same multiset of elements in every list: only the order inside lists differs
        return {"kind": "findall-order", "multiset_equal": True, "multi_clause": multi,
                "several_proofs_or_rules_involved": bool(dup or mixed)}
    if key([dedup_lists(x) for x in pb]) == key([dedup_lists(x) for x in sld]):
        shorter = sum(len(l) for l in lists_in_all(pb)) < sum(len(l) for l in lists_in_all(sld))
        return {"kind": "findall-duplicates", "set_equal": True, "problog_list_shorter": shorter, "prolog_list_has_duplicates": dup}
    return {"kind": "answers-differ"}


def lists_in_all(ts):
    acc = []
    for t in ts:
        lists_in(t, acc)
    return acc


def spec_answers(prog, q, budget=60000):
    """Python SLD answers or a string ('fuel' / 'flounder')."""
    try:
        return U.PySLD(prog, budget=budget).answers(('call', q), q)
    except U.Flounder:
        return 'flounder'
    except U.OutOfFuel:
        return 'fuel'
    except RecursionError:
        return 'fuel'


def lean_line(prog, q, fuel=3000):
    return "solve %d %s (call %s) %s" % (fuel, U.sx_program(prog), U.sx_term(q), U.sx_term(q))


def parse_lean(out):
    if out == "none":
        return None
    return [U.sx_to_term(x) for x in U.parse_sx(out)]


# --------------------------------------------------------------------------------------------- ClauseIndex family
def key_of(t):
    return None if U.term_vars(t) else U.pl_term(t)


def index_case_real(arity, heads, calls):
    """Build the predicate in a real ClauseDB, call the real ClauseIndex.find twice per call pattern.
    Returns list of position lists (or exception names)."""
    from problog.program import PrologString
    from problog.engine import DefaultEngine
    from problog.logic import Term, Var
    src = "\n".join(U.pl_term(U.F('pp', *h)) + "." for h in heads) + "\nzz_dummy.\n"
    db = DefaultEngine().prepare(PrologString(src))
    dn = db.find(Term('pp', *([None] * arity)))
    outs = []
    if dn is None:
        return [[] for _ in calls] * 2
    children = db.get_node(dn).children
    order = list(list.__iter__(children))
    for rep in range(2):
        for c in calls:
            args = []
            for a in c:
                args.append(to_pl_call_arg(a))
            try:
                r = children.find(args)
                outs.append([order.index(x) for x in r])
            except Exception as e:  # noqa
                outs.append("EXC:" + type(e).__name__)
    return outs


def to_pl_call_arg(t):
    from problog.logic import Term, Var, Constant
    if U.is_var(t):
        return Var("X%d" % t[1])
    if isinstance(t, str):
        if re.fullmatch(r"-?[0-9]+", t):
            return Constant(int(t))
        if re.fullmatch(r"-?[0-9]+\.[0-9]+", t):
            return Constant(float(t))
        if t.startswith('"'):
            return Constant(t)      # string constants keep their quotes in problog
        return Term(t)
    return Term(t[1], *[to_pl_call_arg(a) for a in t[2]])


def index_spec(heads, call):
    out = []
    for i, h in enumerate(heads):
        ok = True
        for a, b in zip(call, h):
            ka, kb = key_of(a), key_of(b)
            if ka is not None and kb is not None and ka != kb:
                ok = False
        if ok:
            out.append(i)
    return out


def index_lean_line(arity, heads, call):
    cls = " ".join("(%d (%s))" % (i, " ".join(sx_key(key_of(a)) for a in h)) for i, h in enumerate(heads))
    return "find %d (%s) (%s)" % (arity, cls, " ".join(sx_key(key_of(a)) for a in call))


def sx_key(k):
    return "_" if k is None else k.replace("(", "<").replace(")", ">").replace(",", ";").replace(" ", "")


# --------------------------------------------------------------------------------------------- pinned corpus
def corpus_path():
    import os
    from lib import VERIF
    return os.path.join(VERIF, "corpus", "C13", "dup_agree.json")


def corpus_outcome(prog, q, limit=10.0, tries=2):
    """(sld, problog answers | 'raises X', index problems) or None when the case cannot be decided now (reference out
    of fuel, engine slower than `limit` seconds on every try: cost, never a failure)."""
    sld = spec_answers(prog, q)
    if isinstance(sld, str):
        return None
    for _ in range(tries):
        try:
            pb, problems = run_problog(prog, q, limit=limit)
            return sld, pb, problems
        except Timeout:
            continue
        except Infra:
            raise
        except Exception as e:  # noqa
            return sld, "raises " + type(e).__name__, None
    return None


def corpus_replay(ctx, items, budget_s):
    """Pinned regression corpus (tools/gen_c13_corpus.py): deterministic findall programs whose Prolog lists contain
    duplicates and whose answer the tree reproduced EXACTLY when the corpus was built. They lie inside the region of known
    finding C13-findall-duplicates-collapsed, so a changed outcome is reported as a corpus-regression, which no finding
    matches. Only the first regression is reported (shortest program text first among the ones seen)."""
    t0 = time.time()
    nok = nskip = 0
    bad = []
    for c in items:
        if time.time() - t0 > budget_s:
            nskip += 1
            continue
        prog, q = [fromjson(x) for x in c["program"]], fromjson(c["query"])
        r = corpus_outcome(prog, q)
        if r is None:
            nskip += 1
            continue
        sld, pb, problems = r
        ctx.case("corpus:" + c["text"] + "?" + U.pl_term(q), nontrivial=True)
        if pb == sld and not problems:
            nok += 1
            continue
        bad.append((len(c["text"]), c, sld, pb, problems))
        if len(bad) >= 5:
            break
    ctx.count("corpus programs (Prolog list has duplicates, still exactly Prolog's answer)", nok)
    if nskip:
        ctx.count("corpus programs skipped (time)", nskip)
    if bad:
        _, c, sld, pb, problems = min(bad, key=lambda b: b[0])
        got = pb if isinstance(pb, str) else [U.pl_term(x) for x in pb]
        ctx.fail("corpus program (Prolog's list has duplicates; problog gave exactly Prolog's answer when the corpus was "
                 "built): program `%s` query %s: problog %s, Prolog (SLD) %s" % (
                     c["text"].replace("\n", " "), U.pl_term(fromjson(c["query"])), problems[0] if problems else got,
                     [U.pl_term(x) for x in sld]),
                 {"family": "corpus", "program": c["program"], "query": c["query"], "text": c["text"], "source": c.get("source")},
                 {"kind": "corpus-regression"})
    return nok


# --------------------------------------------------------------------------------------------- the check
def is_known(ctx, sig):
    """Would ctx.fail file this signature under a known finding? (those are not shrunk: budget goes to new failures)"""
    sg = dict(sig)
    sg.setdefault("property", ctx.pid)
    return any(f.get("property") == ctx.pid and all(sg.get(k) == v for k, v in f.get("match", {}).items())
               for f in ctx.known.get("findings", []))


def run(ctx):
    ctx.rule = ("case = one generated program with its query (families: findall over non-recursive programs; structural "
                "recursion over lists/peano/acyclic graphs; tabled positive recursion; one predicate's clause index with "
                "call patterns; calls of undefined predicates); distinct = distinct program text + query; non-trivial = "
                "the reference has at least one answer")
    ctx.proof_phase(MODULE, THEOREMS, refutations=REFUTATIONS)
    drv = ctx.driver("Drivers.C13")
    if drv is None:
        return ctx.finish("proof")
    diffs = []      # model vs implementation (correspondence)
    cross = []      # Lean vs Python spec interpreters
    fails = []      # (what, replay, sig, family, prog, q)

    pending = []  # (family, prog, q, sld)

    def handle(family, prog, q):
        """Queue one program/query; the spec (Python SLD) is computed now, Lean and problog run in `flush`."""
        sld = spec_answers(prog, q)
        if isinstance(sld, str):
            ctx.count("%s:skipped-%s" % (family, sld))
            return
        pending.append((family, prog, q, sld))

    def flush():
        outs = drv.run([lean_line(prog, q) for (_, prog, q, _) in pending])
        for (family, prog, q, sld), out in zip(pending, outs):
            if time.time() - ctx.t_work > ctx.budget(75, 700):
                ctx.count("%s:not-run-wall-clock-cap" % family)
                continue
            process(family, prog, q, sld, parse_lean(out))
        del pending[:]

    def process(family, prog, q, sld, lean):
        text = U.pl_program(prog)
        ctx.case(text + "?" + U.pl_term(q), nontrivial=bool(sld))
        ctx.sample({"family": family, "program": text.split("\n")[-6:], "query": U.pl_term(q), "answers": [U.pl_term(a) for a in sld][:6]})
        if lean is None:
            ctx.count("%s:lean-no-answer" % family)
        elif lean != sld:
            cross.append((text, U.pl_term(q), [U.pl_term(x) for x in lean], [U.pl_term(x) for x in sld]))
        try:
            pb, problems = run_problog(prog, q)
        except Infra:
            raise
        except Timeout:
            ctx.count("%s:skipped-problog-timeout" % family)
            return
        except Exception as e:
            sig = {"kind": "exception", "exception": type(e).__name__}
            fails.append(("%s raised on a deterministic program: %s" % (type(e).__name__, str(e)[:100]), sig, family, prog, q))
            ctx.count("%s:exception" % family)
            return
        if problems:
            fails.append(("ClauseIndex.find out of program order: " + problems[0], {"kind": "index-order"}, family, prog, q))
            ctx.count("%s:index-order" % family)
            return
        if family in ("struct", "tabled"):
            # tabled evaluation reports every distinct answer once
            a, b = sorted(set(map(repr, pb))), sorted(set(map(repr, sld)))
            if a != b:
                fails.append(("answer set differs", {"kind": "answers-differ"}, family, prog, q))
                ctx.count("%s:DIFF" % family)
            else:
                ctx.count("%s:agree" % family)
            if lean is not None and sorted(set(map(repr, lean))) != a and not diffs:
                diffs.append(("answer set of %s" % U.pl_term(q), text, [U.pl_term(x) for x in lean], [U.pl_term(x) for x in pb]))
            return
        sig = classify(prog, sld, pb)
        if sig is None:
            ctx.count("%s:agree" % family)
        else:
            ctx.count("%s:%s" % (family, sig["kind"]))
            fails.append(("findall result differs from SLD order", sig, family, prog, q))
        if lean is not None and sig is not None and sig["kind"] == "answers-differ" and not diffs:
            diffs.append(("answers of %s" % U.pl_term(q), text, [U.pl_term(x) for x in lean], [U.pl_term(x) for x in pb]))

    if ctx.replay_in:
        rp = json.load(open(ctx.replay_in))["replay"]
        if rp.get("family") == "corpus":
            corpus_replay(ctx, [rp], 60)
            index_cases = []
            progs = []
        elif rp.get("family") == "index":
            index_cases = [(rp["arity"], [tuple(fromjson(h)) for h in rp["heads"]], [tuple(fromjson(c)) for c in rp["calls"]])]
            progs = []
        else:
            index_cases = []
            progs = [(rp["family"], [fromjson(c) for c in rp["program"]], fromjson(rp["query"]))]
        for fam, prog, q in progs:
            handle(fam, prog, q)
        flush()
    else:
        # ---- pinned regression corpus, replayed first
        import os
        if os.path.exists(corpus_path()):
            corpus_replay(ctx, json.load(open(corpus_path())), ctx.budget(20, 60))
        # ---- findall family
        rng = ctx.sub_rng("findall")
        for _ in range(ctx.budget(450, 10000)):
            prog, q = U.gen_findall_program(rng)
            handle("findall", prog, q)
        # the pinned witness of the ClauseIndex defect (DESIGN §9)
        wprog = [(1, U.F('p', U.V(0), '1'), U.TRUE), (0, U.F('p', 'a', '2'), U.TRUE), (0, U.F('p', 'b', '3'), U.TRUE),
                 (1, U.F('p', U.V(0), '4'), U.TRUE), (2, U.F('q', U.V(1)), ('findall', U.V(0), ('call', U.F('p', 'a', U.V(0))), U.V(1)))]
        handle("findall", wprog, U.F('q', U.V(0)))
        # pinned witness of the EvalAnd defect (first conjunct FALSE): e(b). p(a) :- (e(b), \+e(b)), true.
        eb = ('call', U.F('e', 'b'))
        wprog2 = [(0, U.F('e', 'b'), U.TRUE), (0, U.F('p', 'a'), ('and', ('and', eb, ('not', eb)), U.TRUE)),
                  (3, U.F('q', U.V(2)), ('findall', U.V(1), ('findall', U.V(0), ('call', U.F('p', U.V(0))), U.V(1)), U.V(2)))]
        handle("findall", wprog2, U.F('q', U.V(0)))
        # ---- structural recursion
        rng = ctx.sub_rng("struct")
        for _ in range(ctx.budget(120, 2500)):
            prog, q = U.gen_struct_program(rng)
            if rng.random() < 0.3:
                nv = max(U.term_vars(q) + [-1]) + 1
                tv = U.term_vars(q)
                if tv:
                    t = U.V(tv[0]) if len(tv) == 1 else U.F('t', *[U.V(v) for v in tv])
                    prog = prog + [(nv + 1, U.F('q', U.V(nv)), ('findall', t, ('call', q), U.V(nv)))]
                    handle("findall", U.fix_nvars(prog), U.F('q', U.V(0)))
                    continue
            handle("struct", prog, q)
        flush()
        index_cases = None

    # ---- tabled recursion: answer sets vs bottom-up (Python) and Lean bottomUp
    if not ctx.replay_in:
        rng = ctx.sub_rng("tabled")
        tcases = []
        for _ in range(ctx.budget(150, 3000)):
            prog, queries = U.gen_tabled_program(rng)
            try:
                model = U.bottom_up(prog)
            except U.OutOfFuel:
                ctx.count("tabled:skipped-fuel")
                continue
            tcases.append((prog, queries, model))
        touts = drv.run(["bottomup 400 60 %s" % U.sx_program(prog) for prog, _, _ in tcases])
        text = ""
        for (prog, queries, model), out in zip(tcases, touts):
            if time.time() - ctx.t_work > ctx.budget(90, 900):
                ctx.count("tabled:not-run-wall-clock-cap")
                continue
            text = U.pl_program(prog)
            if out == "none":
                ctx.count("tabled:lean-no-answer")
            else:
                lm = set(map(repr, (U.sx_to_term(x) for x in U.parse_sx(out))))
                if lm != set(map(repr, model)):
                    cross.append((text, "bottom-up", sorted(lm)[:8], sorted(map(repr, model))[:8]))
            for q in queries:
                ctx.case(text + "?" + U.pl_term(q), nontrivial=any(U.sig(a) == U.sig(q) for a in model))
                exp = sorted(repr(a) for a in model if U.sig(a) == U.sig(q))
                try:
                    pb, problems = run_problog(prog, q)
                except Infra:
                    raise
                except Timeout:
                    ctx.count("tabled:skipped-problog-timeout")
                    continue
                except Exception as e:
                    fails.append(("%s raised on a deterministic recursive program: %s" % (type(e).__name__, str(e)[:100]),
                                  {"kind": "exception", "exception": type(e).__name__}, "tabled", prog, q))
                    ctx.count("tabled:exception")
                    continue
                if problems:
                    fails.append(("ClauseIndex.find out of program order: " + problems[0], {"kind": "index-order"}, "tabled", prog, q))
                    continue
                got = sorted(set(map(repr, pb)))
                if len(pb) != len(set(map(repr, pb))):
                    fails.append(("tabled query reports an answer twice", {"kind": "answers-differ"}, "tabled", prog, q))
                elif got != exp:
                    fails.append(("tabled answer set differs from the least Herbrand model", {"kind": "answers-differ"}, "tabled", prog, q))
                    ctx.count("tabled:DIFF")
                else:
                    ctx.count("tabled:agree")
        ctx.sample({"family": "tabled", "program": text.split("\n")[:8]})
        # ---- undefined predicates: Prolog raises an existence error, problog UnknownClause
        rng = ctx.sub_rng("undefined")
        from problog.engine import UnknownClause
        for _ in range(ctx.budget(10, 100)):
            prog, q = U.gen_findall_program(rng)
            prog = prog[:-1] + [(1, U.F('q', U.V(0)), ('call', U.F('undefined_pred', U.V(0))))]
            ctx.case(U.pl_program(prog) + "?undefined", nontrivial=True)
            try:
                run_problog(prog, q)
                fails.append(("call of an undefined predicate did not raise", {"kind": "no-existence-error"}, "undefined", prog, q))
            except UnknownClause:
                ctx.count("undefined:UnknownClause")
            except Timeout:
                ctx.count("undefined:skipped-problog-timeout")
            except Exception as e:
                fails.append(("call of an undefined predicate raised %s" % type(e).__name__,
                              {"kind": "exception", "exception": type(e).__name__}, "undefined", prog, q))

    # ---- ClauseIndex.find: real vs spec vs Lean model
    rng = ctx.sub_rng("index")
    if index_cases is None:
        index_cases = [U.gen_index_case(rng) for _ in range(ctx.budget(400, 10000))]
        index_cases.append((2, [(U.V(0), '1'), ('a', '2'), ('b', '3'), (U.V(0), '4')], [('a', U.V(1)), ('a', U.V(1)), ('b', U.V(0))]))
    idx_fail = None
    idx_diff = None
    lines = []
    for arity, heads, calls in index_cases:
        for c in calls:
            lines.append(index_lean_line(arity, heads, c))
    model_out = drv.run(lines)
    k = 0
    for arity, heads, calls in index_cases:
        real = index_case_real(arity, heads, calls)
        ctx.case(json.dumps(["index", tojson(heads), tojson(calls)]), nontrivial=bool(heads))
        ctx.count("index:%d-clauses" % min(len(heads), 4))
        for j, c in enumerate(calls):
            spec = index_spec(heads, c)
            m = model_out[k]
            k += 1
            for rep in (0, 1):
                r = real[rep * len(calls) + j]
                if r != spec and idx_fail is None:
                    idx_fail = (arity, heads, calls, j, rep, r, spec)
                if isinstance(r, list) and m != "(" + " ".join(map(str, r)) + ")" and idx_diff is None:
                    idx_diff = (arity, heads, c, m, r)
    if idx_fail:
        arity, heads, calls, j, rep, r, spec = idx_fail

        def bad(hs):
            rr = index_case_real(arity, hs, calls)
            return any(rr[rep2 * len(calls) + jj] != index_spec(hs, calls[jj]) for rep2 in (0, 1) for jj in range(len(calls)))
        small = U.shrink_list(heads, bad)
        rr = index_case_real(arity, small, calls)
        jj, rep2 = next((jj, rep2) for rep2 in (0, 1) for jj in range(len(calls)) if rr[rep2 * len(calls) + jj] != index_spec(small, calls[jj]))
        ctx.fail("ClauseIndex.find(%s) on clauses [%s] returns positions %s%s; the matching clauses in program order are %s" % (
            ", ".join(U.pl_term(a) for a in calls[jj]), " ".join(U.pl_term(U.F('pp', *h)) + "." for h in small),
            rr[rep2 * len(calls) + jj], " (second round of calls)" if rep2 else "", index_spec(small, calls[jj])),
            {"family": "index", "arity": arity, "heads": tojson(small), "calls": tojson(calls)}, {"kind": "index-order"})
    if idx_diff:
        ctx.disagree("ClauseIndex model vs problog.clausedb.ClauseIndex.find", str(idx_diff))

    # ---- report failures (shrunk), most specific first
    shrink_deadline = time.time() + ctx.budget(20, 120)
    reported = set()
    for what, sig, family, prog, q in fails:
        key = json.dumps(sig, sort_keys=True)
        sig = dict(sig)
        if key in reported or is_known(ctx, sig):
            # further occurrences of the same kind of difference: recorded without shrinking again
            ctx.fail("%s: program `%s` query %s" % (what, " ".join(U.pl_clause(c) for c in prog), U.pl_term(q)),
                     {"family": family, "program": tojson(prog), "query": tojson(q), "text": U.pl_program(prog)}, sig)
            continue
        reported.add(key)
        if family in ("findall", "struct", "tabled") and sig["kind"] not in ("exception",):
            def still(p, _sig=sig, _q=q, _family=family):
                if not any(U.sig(c[1]) == U.sig(_q) for c in p):
                    return False
                if _sig["kind"] == "index-order":
                    return bool(run_problog(p, _q)[1])
                s = spec_answers(p, _q, budget=20000)
                if isinstance(s, str):
                    return False
                pb2, pr2 = run_problog(p, _q)
                if pr2:
                    return False
                if _family in ("struct", "tabled"):
                    return sorted(set(map(repr, pb2))) != sorted(set(map(repr, s)))
                return classify(p, s, pb2) == _sig
            small = U.shrink_program(prog, still, keep_last=False, max_steps=ctx.budget(150, 600), deadline=shrink_deadline) if still(prog) else prog
        elif sig["kind"] == "exception":
            def still(p, _sig=sig, _q=q):
                try:
                    run_problog(p, _q)
                    return False
                except Exception as e:
                    return type(e).__name__ == _sig["exception"]
            small = U.shrink_program(prog, still, keep_last=False, max_steps=ctx.budget(150, 600), deadline=shrink_deadline)
        else:
            small = prog
        s = spec_answers(small, q)
        try:
            pb = [U.pl_term(x) for x in run_problog(small, q)[0]]
        except Exception as e:
            pb = "raises " + type(e).__name__
        ctx.fail("%s: program `%s` query %s: problog %s, Prolog (SLD) %s" % (
            what, " ".join(U.pl_clause(c) for c in small), U.pl_term(q), pb,
            s if isinstance(s, str) else [U.pl_term(x) for x in s]),
            {"family": family, "program": tojson(small), "query": tojson(q), "text": U.pl_program(small)}, sig)

    if cross:
        ctx.obligation("Lean SLD interpreter = independent Python SLD interpreter", False, str(cross[0])[:600])
    else:
        ctx.obligation("Lean SLD interpreter = independent Python SLD interpreter (every case)", True)
    for d in diffs[:1]:
        ctx.disagree("SLD model vs problog engine", str(d)[:800])
    ctx.obligation("correspondence: ClauseIndex model = ClauseIndex.find on %d call patterns" % len(lines), idx_diff is None,
                   "" if idx_diff is None else str(idx_diff)[:300])
    return ctx.finish("proof")
