"""C30 — invalid probability annotations are rejected.

Tie: the semiring methods are the definitions regenerated from problog/evaluator.py by harness/py2lean on every run;
`extract_weights` / `ConstraintAD.update_weights` have a hand-written Lean model (lean/ProbLogModel/ADWeights.lean)
that is executed next to the real functions (a) on synthetic AD constraints with sums around 1 and (b) on the ground
programs of generated ProbLog programs, for the probability and the log-probability semiring.
Search oracle (independent of the Lean model): the generator knows which annotations are relevant to a query or to
evidence and their exact rational values; a relevant annotation outside [0,1] (beyond the code's 1e-9 tolerance) or a
relevant annotated disjunction whose heads sum to more than 1 must make both semirings raise InvalidValue end to end
(PrologString -> get_evaluatable().create_from -> evaluate)."""
import json
from fractions import Fraction

import lib
from lib import Infra
import semiring_util as su

MODULE = "ProbLogProofs.Properties.C30"
THEOREMS = ["ProbLogProofs.C30." + t for t in [
    "C30_value_rejects", "C30_value_accepts", "C30_ad_sum", "C30_ad_sum_log", "C30_ad_single_head_unchecked",
    "C30_extract_rejects", "C30_extract_ad_sum",
]]
REFUTATIONS = ["ProbLogProofs.C30.C30_ad_sum_all_heads_refuted"]

MANIFEST = {
    "level": "proof",
    "technique": "Lean 4 theorems about the regenerated value/in_domain/ad_complement definitions and a hand model of "
                 "extract_weights/ConstraintAD.update_weights + execution of that model next to the real functions "
                 "on synthetic constraints and on ground programs of generated ProbLog programs + end-to-end oracle",
    "text": "Lean theorems: value/pos_value/neg_value of both probability semirings raise InvalidValue outside "
            "[-1e-9, 1+1e-9] and accept [0,1]; update_weights raises InvalidValue when at least two grounded heads sum "
            "to more than 1+1e-9 (probability semiring over ℚ, log semiring over ℝ∪{−∞}); extract_weights raises as soon "
            "as one grounded atom is invalid. Every run regenerates the semiring definitions from the source, runs the "
            "model and the real extract_weights on generated ground programs, and checks end to end that relevant "
            "invalid annotations are rejected by both semirings.",
    "note": "Trusted: Lean kernel, standard axioms, translator (grid cross-check in C12), hand model of update_weights "
            "(tied by execution only), harness. The theorem about AD sums speaks about the heads present in the ground "
            "program; the program-level statement is refuted for the current code (C30_ad_sum_all_heads_refuted) and "
            "recorded as a known finding. Inside the ±1e-9 band either outcome is accepted.",
    "design_ref": "DESIGN.md §6 C30, §9",
}

BAND = Fraction(1, 10 ** 9)

# (text, exact value)
VALID = [("0.1", "1/10"), ("0.25", "1/4"), ("0.3", "3/10"), ("0.5", "1/2"), ("0.7", "7/10"), ("0.9", "9/10"),
         ("0.05", "1/20"), ("0", "0"), ("1", "1"), ("0.0", "0"), ("1.0", "1"), ("(1/4)", "1/4"), ("(0.2+0.3)", "1/2"),
         ("(1.0-0.3)", "7/10"), ("(2/4)", "1/2"), ("0.999999999", "999999999/1000000000"), ("0.000000001", "1/1000000000")]
INTERIOR = [v for v in VALID if Fraction(v[1]) not in (0, 1)]
INBAND = [("1.0000000005", "10000000005/10000000000"), ("-0.0000000005", "-5/10000000000")]
INVALID = [("1.5", "3/2"), ("-0.5", "-1/2"), ("1.00000001", "100000001/100000000"), ("-0.00000001", "-1/100000000"),
           ("2", "2"), ("1.000001", "1000001/1000000"), ("(0.7+0.7)", "7/5"), ("(0.5*3)", "3/2"), ("(0.2-0.5)", "-3/10"),
           ("-1", "-1"), ("(3/2)", "3/2")]
AD_SETS = {
    "valid": [["0.3", "0.3"], ["0.5", "0.5"], ["0.2", "0.3", "0.4"], ["0.6", "0.3"], ["0.1", "0.2", "0.3", "0.4"],
              ["(1/4)", "(2/4)"], ["0.25", "0.25", "0.25", "0.25"], ["0.9", "0.1"], ["1", "0"]],
    "band": [["0.5", "0.5000000005"], ["0.3", "0.3", "0.4000000004"]],
    "over": [["0.6", "0.6"], ["0.4", "0.4", "0.4"], ["0.5", "0.50000001"], ["0.9", "0.2"], ["(2/4)", "(3/4)"],
             ["0.3", "0.3", "0.3", "0.3"], ["0.5", "0.5", "0.00000001"], ["1", "1"], ["0.6", "0.6", "0.1"]],
    "badhead": [["1.5", "0.2"], ["0.2", "-0.5"], ["0.3", "(0.7+0.7)", "0.1"]],
}


def exact(text):
    """Exact rational value of an annotation text (decimal or a parenthesised binary expression)."""
    t = text.strip()
    if t.startswith("("):
        t = t[1:-1]
        for op in "+-*/":
            i = t.find(op, 1)
            if i > 0:
                a, b = Fraction(t[:i]), Fraction(t[i + 1:])
                return {"+": a + b, "-": a - b, "*": a * b, "/": a / b}[op]
        raise Infra("annotation " + text)
    return Fraction(t)


# --------------------------------------------------------------------------- programs
class Prog:
    """facts: [(name, text, form)] form 'plain' | 'is';  ads: [([(head, text)], body|None)];
    rules: [(head, [(positive?, atom)])]; queries: [atom]; evidence: [(atom, bool)]"""

    def __init__(self, facts, ads, rules, queries, evidence):
        self.facts, self.ads, self.rules, self.queries, self.evidence = facts, ads, rules, queries, evidence

    def text(self):
        out = []
        for name, t, form in self.facts:
            if form == "is":
                out.append("P::%s :- P is %s." % (name, t))
            else:
                out.append("%s::%s." % (t, name))
        for heads, body in self.ads:
            s = "; ".join("%s::%s" % (t, h) for h, t in heads)
            out.append(s + (" :- %s." % body if body else "."))
        for head, body in self.rules:
            out.append("%s :- %s." % (head, ", ".join(("" if pos else "\\+") + a for pos, a in body)))
        for q in self.queries:
            out.append("query(%s)." % q)
        for a, v in self.evidence:
            out.append("evidence(%s)." % (a if v else "\\+" + a))
        return "\n".join(out)

    def to_json(self):
        return {"facts": self.facts, "ads": self.ads, "rules": self.rules, "queries": self.queries,
                "evidence": self.evidence, "text": self.text()}

    @staticmethod
    def from_json(d):
        return Prog([tuple(f) for f in d["facts"]], [([tuple(h) for h in hs], b) for hs, b in d["ads"]],
                    [(h, [tuple(l) for l in b]) for h, b in d["rules"]], list(d["queries"]),
                    [tuple(e) for e in d["evidence"]])

    def analyse(self):
        """Relevance closure from queries and evidence; returns the oracle's classification."""
        facts = {n: exact(t) for n, t, _ in self.facts}
        head_of = {}
        for i, (heads, body) in enumerate(self.ads):
            for h, t in heads:
                head_of[h] = i
        rules = {}
        for h, b in self.rules:
            rules.setdefault(h, []).append(b)
        todo = list(self.queries) + [a for a, _ in self.evidence]
        seen = set()
        while todo:
            a = todo.pop()
            if a in seen:
                continue
            seen.add(a)
            for b in rules.get(a, []):
                todo.extend(x for _, x in b)
            if a in head_of:
                body = self.ads[head_of[a]][1]
                if body:
                    todo.append(body)
        clearly, band, reasons = False, False, []
        ad_only_ungrounded = True  # every "clearly invalid" reason is an AD sum whose grounded heads alone are fine
        for n, v in facts.items():
            if n in seen:
                if v < -BAND * 2 or v > 1 + BAND * 2:
                    clearly = True
                    ad_only_ungrounded = False
                    reasons.append("fact %s = %s" % (n, v))
                elif v < 0 or v > 1:
                    band = True
        for i, (heads, body) in enumerate(self.ads):
            grounded = [(h, exact(t)) for h, t in heads if h in seen]
            if not grounded:
                continue
            for h, v in grounded:
                if v < -BAND * 2 or v > 1 + BAND * 2:
                    clearly = True
                    ad_only_ungrounded = False
                    reasons.append("AD head %s = %s" % (h, v))
                elif v < 0 or v > 1:
                    band = True
            total = sum(exact(t) for _, t in heads)
            gsum = sum(v for _, v in grounded)
            if total > 1 + BAND * 2:
                clearly = True
                reasons.append("AD %d sums to %s" % (i, total))
                if len(grounded) >= 2 and gsum > 1 + BAND * 2:
                    ad_only_ungrounded = False
                elif len(grounded) >= 2 and gsum > 1:
                    band = True  # grounded heads inside the tolerance band: the code may already reject
            elif total > 1:
                band = True
        return {"must_reject": clearly, "band": band, "reasons": reasons,
                "only_ungrounded_ad_sum": clearly and ad_only_ungrounded, "relevant": sorted(seen)}


def gen_prog(rng):
    nf = rng.randrange(1, 5)
    facts, atoms = [], []
    mode = rng.random()
    for i in range(nf):
        r = rng.random()
        if mode < 0.35:
            pool = VALID
        elif r < 0.55:
            pool = VALID
        elif r < 0.65:
            pool = INBAND
        else:
            pool = INVALID
        t, _ = rng.choice(pool)
        form = "is" if rng.random() < 0.15 else "plain"
        if form == "is" and t.startswith("-"):
            form = "plain"
        facts.append(("f%d" % i, t, form))
        atoms.append("f%d" % i)
    ads = []
    for j in range(rng.choice([0, 1, 1, 2])):
        kind = rng.choice(["valid", "valid", "band", "over", "over", "over", "badhead"]) if mode >= 0.35 else "valid"
        ps = list(rng.choice(AD_SETS[kind]))
        rng.shuffle(ps)
        heads = [("h%d_%d" % (j, k), p) for k, p in enumerate(ps)]
        body = rng.choice(atoms[:nf]) if rng.random() < 0.3 else None
        ads.append((heads, body))
        atoms.extend(h for h, _ in heads)
    rules, derived = [], []
    for k in range(rng.randrange(0, 4)):
        head = "d%d" % rng.randrange(0, 3)
        if head in derived and rng.random() < 0.5:
            pass
        body = [(rng.random() < 0.75, rng.choice(atoms)) for _ in range(rng.randrange(1, 3))]
        body = [l for i, l in enumerate(body) if l[1] not in [x[1] for x in body[:i]]]
        # `d :- x.  d :- \\+x.` is a tautology: the ground-program builder reduces d to TRUE and x is no longer
        # relevant to anything (not an observation for this property)
        if len(body) == 1 and any(h == head and len(b) == 1 and b[0][1] == body[0][1] and b[0][0] != body[0][0]
                                  for h, b in rules):
            continue
        rules.append((head, body))
        if head not in derived:
            derived.append(head)
    cand = atoms + derived
    queries = sorted(set(rng.choice(cand) for _ in range(rng.randrange(1, 4))))
    evidence = []
    if rng.random() < 0.3:
        evs = [n for n, t, _ in facts if Fraction(0) < exact(t) < 1 or exact(t) > 1 + 2 * BAND or exact(t) < -2 * BAND]
        evs = [n for n in evs if n not in queries]
        if evs:
            evidence.append((rng.choice(evs), rng.random() < 0.5))
    return Prog(facts, ads, rules, queries, evidence)


# --------------------------------------------------------------------------- running the real code
def semirings():
    from problog.evaluator import SemiringProbability, SemiringLogProbability
    return {"prob": SemiringProbability, "log": SemiringLogProbability}


def end_to_end(src, which):
    """('values', {...}) | ('error', class name, message)"""
    return end_to_end_both(src, (which,))[which]


def end_to_end_both(src, whiches=("prob", "log")):
    """Compile once (PrologString -> get_evaluatable().create_from), evaluate with each semiring."""
    from problog.program import PrologString
    from problog import get_evaluatable
    out = {}
    try:
        f = get_evaluatable().create_from(PrologString(src))
    except Exception as e:
        return {w: ("error", type(e).__name__, str(e)[:120]) for w in whiches}
    for w in whiches:
        try:
            r = f.evaluate(semiring=semirings()[w]())
            out[w] = ("values", {str(k): v for k, v in r.items()})
        except Exception as e:
            out[w] = ("error", type(e).__name__, str(e)[:120])
    return out


def ground(src):
    from problog.program import PrologString
    from problog.formula import LogicFormula
    return LogicFormula.create_from(PrologString(src))


def formula_inputs(lf):
    """Atoms (in get_weights order) with their external numeric weights, AD constraints as index lists."""
    from problog.constraint import ConstraintAD
    ws = lf.get_weights()
    keys = list(ws.keys())
    pos = {k: i for i, k in enumerate(keys)}
    ext = []
    for k in keys:
        w = ws[k]
        if w is None or w is False or (w == lf.WEIGHT_NEUTRAL and type(w) == type(lf.WEIGHT_NEUTRAL)):
            return None
        ext.append(float(w))
    ads = []
    for c in lf.constraints():
        if not isinstance(c, ConstraintAD):
            return None
        nodes = list(c.nodes)
        if any(n not in pos for n in nodes):
            return None
        extra = pos.get(c.extra_node, 0)
        if len(nodes) > 1 and c.extra_node not in pos:
            return None
        ads.append(([pos[n] for n in nodes], extra))
    return keys, ext, ads


def wire_extract(tag, ext, ads):
    enc = (lambda x: lib.rat(Fraction(x))) if tag == "P" else su.fbits
    return "%s extract (%s) (%s)" % (tag, " ".join(enc(x) for x in ext),
                                     " ".join("((%s) %d)" % (" ".join(map(str, ns)), x) for ns, x in ads))


def decode_weights(tag, line):
    parse_sexp = su.parse_sexp
    if line.startswith("ERR:"):
        return ("error", line[4:])
    if line == "bad-op":
        return ("bad", line)
    x = parse_sexp(line)
    dec = Fraction if tag == "P" else su.unbits
    return ("ok", [(dec(a), dec(b)) for a, b in x])


def same_weights(tag, model, impl_pairs):
    if len(model) != len(impl_pairs):
        return False
    for (mp, mn), (ip, inn) in zip(model, impl_pairs):
        if tag == "P":
            if not (lib.close(ip, mp) and lib.close(inn, mn)):
                return False
        else:
            if not (lclose(float(ip), mp) and lclose(float(inn), mn)):
                return False
    return True


def lclose(a, b):
    """Log-probabilities agree: 1e-9 relative on the logarithm, or 1e-12 absolute on the probability (a complement
    `log(1 - Σ)` with Σ close to 1 is ill-conditioned: the few-ulp difference between two log1p implementations is
    amplified)."""
    import math
    if su.fclose(a, b):
        return True
    if math.isnan(a) or math.isnan(b) or a > 1 or b > 1:
        return False
    return abs(su.safe_exp(a) - su.safe_exp(b)) <= 1e-12


def impl_extract(lf, keys, which):
    try:
        d = lf.extract_weights(semirings()[which]())
        return ("ok", [d[k] for k in keys])
    except Exception as e:
        return ("error", type(e).__name__)


# --------------------------------------------------------------------------- part A: ConstraintAD.update_weights directly
def synthetic_ads(ctx, drv, rng):
    from problog.constraint import ConstraintAD
    import math
    deltas = ["0", "1e-12", "-1e-12", "2e-12", "1e-10", "-1e-10", "5e-10", "-5e-10", "2e-9", "-2e-9", "1e-8", "-1e-8", "0.1",
              "-0.1", "0.5", "-0.5"]
    cases = []
    n = ctx.budget(300, 6000)
    for _ in range(n):
        k = rng.choice([0, 1, 2, 2, 3, 4])
        if k == 0:
            ps = []
        else:
            total = 1 + Fraction(rng.choice(deltas))
            cuts = sorted(Fraction(rng.randrange(1, 1000), 1000) for _ in range(k - 1))
            parts = [b - a for a, b in zip([Fraction(0)] + cuts, cuts + [Fraction(1)])]
            ps = [p * total for p in parts]
            if rng.random() < 0.15:
                ps[rng.randrange(k)] = Fraction(0)
        cases.append(ps)
    lines, meta = [], []
    for ps in cases:
        for tag, which in (("P", "prob"), ("L", "log")):
            pairs, impl = real_updatead(tag, ps)
            k = len(ps)
            enc = (lambda x: lib.rat(Fraction(x))) if tag == "P" else su.fbits
            if tag == "P":
                wl = [(lib.rat(p), lib.rat(1 - p)) for p in ps] + [("1", "1")]
            else:
                wl = [(enc(a), enc(b)) for a, b in pairs] + [(enc(0.0), enc(0.0))]
            line = "%s updatead (%s) (%s) %d" % (tag, " ".join("(%s %s)" % w for w in wl), " ".join(str(i) for i in range(k)), k)
            lines.append(line)
            meta.append((tag, ps, impl))
    outs = drv.run(lines)
    first, nd, skipped = None, 0, 0
    for (tag, ps, impl), line, o in zip(meta, lines, outs):
        ctx.count("update_weights %s, %d heads" % (tag, len(ps)))
        model = decode_weights(tag, o)
        s = sum(ps)
        # float rounding decides inside 1e-13 of a threshold of the sum: skip
        thr = [1 + BAND, Fraction(1), 1 + Fraction(1, 10 ** 12), 1 - Fraction(1, 10 ** 10)]
        if len(ps) >= 2 and any(abs(s - t) < Fraction(1, 10 ** 13) for t in thr):
            skipped += 1
            continue
        ctx.case(("updatead", line), nontrivial=len(ps) >= 2)
        ok = model[0] == impl[0] and (model[1] == impl[1] if model[0] != "ok" else same_weights(tag, model[1], impl[1]))
        if not ok:
            nd += 1
            if first is None:
                first = "update_weights(%s heads %s): model %s, implementation %s" % (tag, [str(p) for p in ps], o, impl)
        # independent oracle: grounded heads (>= 2) clearly above 1 must be rejected, clearly below accepted is not demanded
        if len(ps) >= 2 and s > 1 + 2 * BAND and impl[0] != "error":
            ctx.fail("ConstraintAD.update_weights accepts heads %s (sum %s) in the %s semiring" % ([str(p) for p in ps], s, tag),
                     {"kind": "updatead", "tag": tag, "ps": [str(p) for p in ps]},
                     {"kind": "not-rejected", "cause": "ad-sum-grounded", "semiring": tag})
    if first:
        ctx.disagree("ADWeights.updateAD vs ConstraintAD.update_weights", "%d differences; first: %s" % (nd, first))
    ctx.obligation("correspondence: %d update_weights calls (sums around 1), model = implementation (%d threshold inputs skipped)" % (
        len(lines) - skipped, skipped), first is None, first or "")


def real_updatead(tag, ps):
    """One real ConstraintAD.update_weights call on heads with probabilities `ps` (Fractions)."""
    from problog.constraint import ConstraintAD
    import math
    sr = semirings()["prob" if tag == "P" else "log"]()
    fl = [float(p) for p in ps]
    if tag == "P":
        pairs = [(f, 1.0 - f) for f in fl]
    else:
        pairs = [((math.log(f) if f > 0 else float("-inf")), 0.0) for f in fl]
    k = len(ps)
    weights = {i + 1: pairs[i] for i in range(k)}
    weights[k + 1] = (sr.one(), sr.one())
    c = ConstraintAD((7, ()))
    c.nodes = set(range(1, k + 1))
    c.extra_node = k + 1
    try:
        c.update_weights(weights, sr)
        return pairs, ("ok", [weights[i] for i in range(1, k + 2)])
    except Exception as e:
        return pairs, ("error", type(e).__name__)


def replay_updatead(ctx, rp):
    ps = [Fraction(p) for p in rp["ps"]]
    _, impl = real_updatead(rp["tag"], ps)
    ctx.case(("replay", rp["tag"], rp["ps"]))
    if len(ps) >= 2 and sum(ps) > 1 + 2 * BAND and impl[0] != "error":
        ctx.fail("ConstraintAD.update_weights accepts heads %s (sum %s) in the %s semiring" % (rp["ps"], sum(ps), rp["tag"]),
                 rp, {"kind": "not-rejected", "cause": "ad-sum-grounded", "semiring": rp["tag"]})


# --------------------------------------------------------------------------- part B: generated programs
def reachable_atoms(src):
    """(weight as float, group) of the atoms of ProbLog's own ground program that are reachable from a query or an
    evidence node; None if grounding fails.  Used only to *withdraw* a demand: the builder simplifies Boolean structure
    (x ∨ ¬x = TRUE, …), after which a textually relevant annotation may not be connected to any query."""
    try:
        lf = ground(src)
        todo = [abs(n) for _, n in lf.queries() if n] + [abs(n) for _, n, _ in lf.evidence_all() if n]
        seen, out = set(), []
        while todo:
            n = todo.pop()
            if n in seen or n == 0:
                continue
            seen.add(n)
            node = lf.get_node(n)
            kind = type(node).__name__
            if kind in ("conj", "disj"):
                todo.extend(abs(c) for c in node.children)
            elif kind == "atom":
                try:
                    out.append((float(node.probability), node.group))
                except Exception:
                    out.append((None, node.group))
        return out
    except Exception:
        return None


def observable(prog, an, src):
    """Is the oracle's reason visible in the ground program (see reachable_atoms)?"""
    ra = reachable_atoms(src)
    if ra is None:
        return True
    lo, hi = float(-2 * BAND), float(1 + 2 * BAND)
    if any(w is not None and (w < lo or w > hi) for w, _ in ra):
        return True
    over = set()
    for heads, _ in prog.ads:
        if sum(exact(t) for _, t in heads) > 1 + 2 * BAND:
            over |= {float(exact(t)) for _, t in heads}
    return any(g is not None and w is not None and any(abs(w - o) < 1e-12 for o in over) for w, g in ra)


def judge(prog, outcomes):
    """Compare end-to-end outcomes with the oracle. Returns list of (what, signature)."""
    an = prog.analyse()
    bad = []
    if an["must_reject"] and any(not (o[0] == "error" and o[1] == "InvalidValue") for o in outcomes.values()):
        if not observable(prog, an, prog.text()):
            an["must_reject"] = False
            an["band"] = True
            an["withdrawn"] = True
    for which, out in outcomes.items():
        rejected = out[0] == "error" and out[1] == "InvalidValue"
        if an["must_reject"] and not rejected:
            if out[0] == "error":
                what = "raises %s instead of InvalidValue" % out[1]
                sig = {"kind": "wrong-error", "error": out[1], "semiring": which}
            else:
                what = "answers %s" % out[1]
                sig = {"kind": "not-rejected", "cause": "ad-sum" if an["only_ungrounded_ad_sum"] else "annotation",
                       "grounded_heads_valid": bool(an["only_ungrounded_ad_sum"]), "semiring": which}
            bad.append(("%s semiring %s although %s" % (which, what, "; ".join(an["reasons"])), sig))
    return an, bad


def shrink(prog, pred):
    """Drop statements while the failure (same signature) persists."""
    cur = prog
    changed = True
    while changed:
        changed = False
        for field in ("evidence", "rules", "facts", "ads", "queries"):
            items = getattr(cur, field)
            i = len(items) - 1
            while i >= 0:
                if field == "queries" and len(items) == 1:
                    break
                cand = Prog(list(cur.facts), list(cur.ads), list(cur.rules), list(cur.queries), list(cur.evidence))
                new = list(items)
                del new[i]
                setattr(cand, field, new)
                if well_formed(cand) and pred(cand):
                    cur, items, changed = cand, new, True
                i -= 1
    return cur


def well_formed(p):
    defined = {n for n, _, _ in p.facts} | {h for hs, _ in p.ads for h, _ in hs} | {h for h, _ in p.rules}
    used = set(p.queries) | {a for a, _ in p.evidence} | {a for _, b in p.rules for _, a in b} | {b for _, b in p.ads if b}
    return used <= defined and bool(p.queries)


def run_program(ctx, drv, prog, lines_acc):
    src = prog.text()
    outcomes = end_to_end_both(src)
    an, bad = judge(prog, outcomes)
    ctx.count("program: %s" % ("must reject" if an["must_reject"] else "invalid annotation not connected to a query in the ground program (no demand)"
                               if an.get("withdrawn") else "tolerance band" if an["band"] else "valid"))
    for w, o in outcomes.items():
        ctx.count("outcome %s: %s" % (w, o[1] if o[0] == "error" else "values"))
    # model vs extract_weights on the ground program
    try:
        lf = ground(src)
        inp = formula_inputs(lf)
    except Exception as e:
        inp = None
        ctx.count("grounding raised %s" % type(e).__name__)
    if inp is not None and drv is not None:
        keys, ext, ads = inp
        for tag, which in (("P", "prob"), ("L", "log")):
            lines_acc.append((wire_extract(tag, ext, ads), tag, impl_extract(lf, keys, which), src, an, outcomes[which]))
    return an, bad, outcomes


def run(ctx):
    ctx.rule = ("a case = one generated ProbLog program (facts / ADs with annotations inside, on and outside [0,1], "
                "arithmetic expressions, AD sums around 1, rules, queries, evidence) evaluated with the probability and "
                "the log-probability semiring, or one synthetic ConstraintAD.update_weights call; non-trivial = at "
                "least one probabilistic annotation is relevant to a query")
    su.regenerate(ctx, None)
    if ctx.replay_in:
        rp = json.load(open(ctx.replay_in))["replay"]
        if rp.get("kind") == "program":
            prog = Prog.from_json(rp["program"])
            outcomes = end_to_end_both(prog.text())
            an, bad = judge(prog, outcomes)
            ctx.case(prog.text())
            for what, sig in bad[:1]:
                ctx.fail("%s :: %s" % (prog.text().replace("\n", " "), what), rp, sig)
        elif rp.get("kind") == "updatead":
            replay_updatead(ctx, rp)
        else:
            raise Infra("unknown replay kind")
        return ctx.finish("proof")
    ctx.proof_phase(MODULE, THEOREMS, refutations=REFUTATIONS)
    drv = ctx.driver("Drivers.C30")
    if drv is not None:
        synthetic_ads(ctx, drv, ctx.sub_rng("synthetic"))
    else:
        ctx.obligation("correspondence: update_weights model executed against Python", False, "driver does not build")
    # the pinned witness of the known finding (= the Lean refutation theorem's witness), replayed on the real code
    wit = Prog([], [([("a", "0.6"), ("b", "0.6")], None)], [], ["a"], [])
    rng = ctx.sub_rng("programs")
    progs = [wit] + [gen_prog(rng) for _ in range(ctx.budget(140, 2000))]
    acc, failures = [], []
    for i, prog in enumerate(progs):
        an, bad, outcomes = run_program(ctx, drv, prog, acc)
        ctx.case(prog.text(), nontrivial=bool(an["relevant"]))
        ctx.programs += 1
        if i < 3:
            ctx.sample({"program": prog.text(), "oracle": {k: an[k] for k in ("must_reject", "band", "reasons")},
                        "outcomes": {w: (o[1] if o[0] == "error" else "values") for w, o in outcomes.items()}})
        if i == 0 and not bad:
            ctx.notes.append("STALE-FINDING: the pinned witness `0.6::a; 0.6::b. query(a).` is now rejected")
            print("STALE-FINDING: property=C30 C30-ad-sum-ungrounded-heads witness no longer fails")
        for what, sig in bad:
            failures.append((prog, what, sig))
    if drv is not None and acc:
        outs = drv.run([a[0] for a in acc])
        first, nd, skipped = None, 0, 0
        for (line, tag, impl, src, an, e2e), o in zip(acc, outs):
            ctx.count("extract_weights %s" % tag)
            model = decode_weights(tag, o)
            if an["band"]:
                skipped += 1  # inside the tolerance band float rounding decides
                continue
            ok = model[0] == impl[0] and (model[1] == impl[1] if model[0] != "ok" else same_weights(tag, model[1], impl[1]))
            # the model's verdict must also be the end-to-end verdict (InvalidValue or not)
            e2e_rej = e2e[0] == "error" and e2e[1] == "InvalidValue"
            if ok and (model[0] == "error") != e2e_rej and not (e2e[0] == "error" and not e2e_rej):
                ok = False
                impl = ("end-to-end", e2e[:2])
            if not ok:
                nd += 1
                if first is None:
                    first = "%s :: model %s, implementation %s" % (src.replace("\n", " "), o[:200], impl)
        if first:
            ctx.disagree("ADWeights.extractWeights vs LogicFormula.extract_weights", "%d differences; first: %s" % (nd, first))
        ctx.obligation("correspondence: extract_weights on %d ground programs x semirings, model = implementation "
                       "(%d in the tolerance band skipped)" % (len(acc) - skipped, skipped), first is None, first or "")
    # report failures: shrink one representative per signature
    seen = set()
    for prog, what, sig in failures:
        key = json.dumps(sig, sort_keys=True)
        if key in seen:
            ctx.fail("%s :: %s" % (prog.text().replace("\n", " "), what), {"kind": "program", "program": prog.to_json()}, sig)
            continue
        seen.add(key)

        def pred(c, sig=sig):
            outs = end_to_end_both(c.text())
            return any(s == sig for _, s in judge(c, outs)[1])

        small = shrink(prog, pred)
        outs = end_to_end_both(small.text())
        w2 = [w for w, s in judge(small, outs)[1] if s == sig]
        ctx.fail("%s :: %s" % (small.text().replace("\n", " "), w2[0] if w2 else what),
                 {"kind": "program", "program": small.to_json()}, sig)
    return ctx.finish("proof")
