"""Helpers for C20 (MPE), C23 (k-best / explain) and C25 (export): running the real tasks in-process, brute-force
oracles over ProbLog's own ground formula, serialisation for the Lean models (Drivers.Tasks)."""
import itertools
import math
import os
import traceback
from fractions import Fraction as F

import spine
from lib import rat


def site_of(e):
    for fr_ in reversed(traceback.extract_tb(e.__traceback__)):
        if "/problog/" in fr_.filename:
            return "%s:%s:%s" % (os.path.basename(fr_.filename), fr_.name, (fr_.line or "").strip())
    return ""


# ------------------------------------------------------------------------------------------------ ground formula oracle
class Ground:
    """Propositional view of a LogicFormula / LogicDAG: atoms (independent or grouped), and/or nodes with negation."""

    def __init__(self, f):
        self.f = f
        self.n = len(f)
        self.kind = [None] * (self.n + 1)
        self.children = [None] * (self.n + 1)
        self.atoms = []
        ws = f.get_weights()
        self.prob = {}
        for i, node, t in f:
            self.kind[i] = t
            if t == "atom":
                self.atoms.append(i)
                w = ws.get(i)
                self.prob[i] = None if (w is True or w is None) else F(str(float(w)))
            else:
                self.children[i] = list(node.children)
        # groups: AD constraints with >= 2 nodes (+ extra); everything else independent
        self.groups = []
        grouped = set()
        for c in f.constraints():
            if type(c).__name__ == "ConstraintAD" and len(c.nodes) > 1:
                nodes = sorted(c.nodes)
                self.groups.append((nodes, c.extra_node))
                grouped.update(nodes)
                grouped.add(c.extra_node)
        self.free = [a for a in self.atoms if a not in grouped]

    def nworlds(self):
        n = 1
        for a in self.free:
            n *= 2
        for nodes, extra in self.groups:
            n *= len(nodes) + 1
        return n

    def worlds(self):
        """Yield (weight, set of true atoms) for every total choice (AD: exactly one of nodes + extra)."""
        opts = []
        for a in self.free:
            p = self.prob[a]
            if p is None:       # deterministic-true atom (weight True)
                opts.append([(F(1), a)])
            else:
                opts.append([(p, a), (1 - p, None)])
        for nodes, extra in self.groups:
            alts = [(self.prob[a], a) for a in nodes]
            alts.append((1 - sum(p for p, _ in alts), extra))
            opts.append(alts)
        n = len(opts)
        true = []

        def rec(i, w):
            if i == n:
                yield w, set(true)
                return
            for p, a in opts[i]:
                if a is not None:
                    true.append(a)
                yield from rec(i + 1, w * p)
                if a is not None:
                    true.pop()
        yield from rec(0, F(1))

    def weight_of(self, true):
        """Exact weight of the assignment `true atoms = true` (None if it violates an AD constraint)."""
        w = F(1)
        for a in self.free:
            p = self.prob[a]
            if p is None:
                if a not in true:
                    return None
            else:
                w *= p if a in true else 1 - p
        for nodes, extra in self.groups:
            members = nodes + [extra]
            ts = [a for a in members if a in true]
            if len(ts) != 1:
                return None
            w *= (self.prob[ts[0]] if ts[0] != extra else 1 - sum(self.prob[a] for a in nodes))
        return w

    def _gamma(self, true, ctx):
        """Least model with negative literals read in ctx (list of bool by node index)."""
        val = [False] * (self.n + 1)
        for a in self.atoms:
            val[a] = a in true
        changed = True
        while changed:
            changed = False
            for i in range(1, self.n + 1):
                if val[i] or self.kind[i] == "atom":
                    continue
                cs = self.children[i]

                def lit(c):
                    if c is None:
                        return False
                    if c == 0:
                        return True
                    if c > 0:
                        return val[c]
                    return (not ctx[-c]) if self.kind[-c] != "atom" else (-c not in true)
                v = all(lit(c) for c in cs) if self.kind[i] == "conj" else any(lit(c) for c in cs)
                if v:
                    val[i] = True
                    changed = True
        return val

    def ordered(self):
        """Children refer to strictly smaller node ids (LogicDAG): one bottom-up pass evaluates the formula."""
        if not hasattr(self, "_ordered"):
            self._ordered = all(self.kind[i] == "atom" or all(c is None or abs(c) < i for c in self.children[i])
                                for i in range(1, self.n + 1))
        return self._ordered

    def model(self, true):
        """Well-founded model of the and/or graph under the assignment; None if not two-valued."""
        if self.ordered():
            val = [False] * (self.n + 1)
            for i in range(1, self.n + 1):
                if self.kind[i] == "atom":
                    val[i] = i in true
                else:
                    vs = [(False if c is None else True if c == 0 else (val[c] if c > 0 else not val[-c]))
                          for c in self.children[i]]
                    val[i] = all(vs) if self.kind[i] == "conj" else any(vs)
            return val
        t = [False] * (self.n + 1)
        for _ in range(self.n + 2):
            u = self._gamma(true, t)
            t2 = self._gamma(true, u)
            if t2 == t:
                return t if t == u else None
            t = t2
        return None

    def key_val(self, val, key):
        if key is None:
            return False
        if key == 0:
            return True
        return val[key] if key > 0 else not val[-key]


def mpe_oracle(g, evidence_keys, limit=1 << 15):
    """Exhaustive enumeration over the ground formula's choices.
    -> None (too big / not two-valued) or dict(z, best, sat = [(weight, true atoms, node values)] of the worlds
    satisfying the evidence)."""
    if g.nworlds() > limit:
        return None
    z = F(0)
    best = None
    sat = []
    for w, true in g.worlds():
        val = g.model(true)
        if val is None:
            return None
        if all(g.key_val(val, k) for k in evidence_keys):
            z += w
            sat.append((w, frozenset(true), val))
            if best is None or w > best:
                best = w
    return dict(z=z, best=best, sat=sat)


# ------------------------------------------------------------------------------------------------ running the MPE task
def run_mpe(src, mode, capture=False, timeout=20):
    """-> dict(status = ok | unsat | error, prob, facts (list of str), exc, site, [kc, cnf])."""
    from problog.program import PrologString
    from problog.formula import LogicFormula, LogicDAG
    import problog.tasks.mpe as mpe
    from problog.maxsat import UnsatisfiableError
    out = {"mode": mode}

    def body():
        if mode == "semiring":
            lf = LogicFormula.create_from(PrologString(src), label_all=True, avoid_name_clash=True)
            cap = []
            if capture:
                orig = mpe.get_evaluatable

                def rec(name=None, semiring=None):
                    cls = orig(name, semiring=semiring)

                    class Rec(object):
                        @staticmethod
                        def create_from(f, **kw):
                            kc = cls.create_from(f, **kw)
                            cap.append(kc)
                            return kc
                    return Rec
                mpe.get_evaluatable = rec
            try:
                prob, facts = mpe.mpe_semiring(lf)
            finally:
                if capture:
                    mpe.get_evaluatable = orig
            out["kc"] = cap[0] if cap else None
            return prob, facts
        else:
            dag = LogicDAG.createFrom(PrologString(src), avoid_name_clash=True, label_all=True, labels=[("output", 1)])
            out["dag"] = dag if capture else None
            if not capture:
                return mpe.mpe_maxsat(dag)
            orig_gs = mpe.get_solver
            rec = []

            def gs(prefer=None):
                real = orig_gs(prefer)

                class RecSolver(object):
                    def evaluate(self, formula, **kwargs):
                        entry = {"cnf": formula, "kwargs": dict(kwargs), "text": real.prepare_input(formula, **kwargs)}
                        rec.append(entry)
                        entry["result"] = real.evaluate(formula, **kwargs)
                        return entry["result"]
                return RecSolver()
            mpe.get_solver = gs
            try:
                return mpe.mpe_maxsat(dag)
            finally:
                mpe.get_solver = orig_gs
                out["solver"] = rec
    import sys
    import io
    old_err = sys.stderr
    sys.stderr = io.StringIO()      # mpe_semiring prints warnings about compound queries
    try:
        try:
            prob, facts = spine.with_timeout(timeout, body)
        finally:
            sys.stderr = old_err
        if facts is None:
            out.update(status="unsat", prob=prob, facts=None)
        else:
            out.update(status="ok", prob=prob, facts=sorted(str(x) for x in facts))
    except UnsatisfiableError:
        out.update(status="unsat", prob=None, facts=None)
    except spine.Timeout:
        out.update(status="error", exc="Timeout", site="")
    except Exception as e:
        out.update(status="error", exc=type(e).__name__, site=site_of(e), msg=str(e)[:200])
    return out


def ground_for_mpe(src, timeout=20):
    """ProbLog's own ground program as the MPE tasks see it (cycle-free DAG: only nodes reachable from labelled nodes)."""
    from problog.program import PrologString
    from problog.formula import LogicFormula, LogicDAG

    def body():
        lf = LogicFormula.create_from(PrologString(src), label_all=True, avoid_name_clash=True)
        dag = LogicDAG.create_from(lf)
        return lf, dag
    return spine.with_timeout(timeout, body)


def name_assignment(g, facts):
    """Map printed facts (names, `\\+name`) to (true atoms, false atoms) of ground view g; None if names are ambiguous."""
    byname = {}
    for a in g.atoms:
        nm = str(g.f.get_node(a).name)
        if nm in byname:
            return None
        byname[nm] = a
    true, false = set(), set()
    for s in facts:
        neg = s.startswith("\\+")
        nm = s[2:] if neg else s
        if nm not in byname:
            continue
        (false if neg else true).add(byname[nm])
    return true, false


# ------------------------------------------------------------------------------------------------ serialisation (C20)
def key_s(k):
    return "N" if k is None else str(k)


def ser_nodes(f):
    out = []
    for i, node, t in f:
        if t == "atom":
            out.append("(a)")
        else:
            out.append("(%s %s)" % ("c" if t == "conj" else "d", " ".join(key_s(c) for c in node.children)))
    return "(nodes %s)" % " ".join(out)


class Labels:
    """Injective numbering of label terms (names); a negated term `-t` gets the negative number."""

    def __init__(self):
        self.ids = {}

    def lit(self, term):
        s = str(term)
        neg = s.startswith("\\+")
        if neg:
            s = s[2:]
        if s not in self.ids:
            self.ids[s] = len(self.ids) + 1
        return -self.ids[s] if neg else self.ids[s]

    def lits(self, terms):
        return sorted(set(self.lit(t) for t in terms))


def exact(x):
    """Exact rational text of a float."""
    return rat(F(x))


def ser_mpe_weights(weights, labels):
    ws = []
    for i, (pos, neg) in weights.items():
        ws.append("(%d (%s (%s)) (%s (%s)))" % (i, exact(pos[0]), " ".join(map(str, labels.lits(pos[1]))),
                                                  exact(neg[0]), " ".join(map(str, labels.lits(neg[1])))))
    return "(weights %s)" % " ".join(ws)


def nnf_flags(kc, root):
    """(decomposable, atom sets per node) of the part of an NNF below `root`: decomposable = the children of every
    conjunction mention pairwise disjoint sets of atoms."""
    n = len(kc)
    reach = set()
    todo = [root]
    while todo:
        k = todo.pop()
        if k is None or k == 0 or abs(k) in reach:
            continue
        reach.add(abs(k))
        nd = kc.get_node(abs(k))
        if type(nd).__name__ != "atom":
            todo.extend(nd.children)
    vs = [None] * (n + 1)
    dec = True
    for i, node, t in kc:
        if t == "atom":
            vs[i] = frozenset([i])
        else:
            acc = set()
            for c in node.children:
                if c is None or c == 0:
                    continue
                cv = vs[abs(c)]
                if t == "conj" and acc & cv and i in reach:
                    dec = False
                acc |= cv
            vs[i] = frozenset(acc)
    return dec, vs


def head_s(h):
    if h is None:
        return "N"
    if h is True:
        return "T"
    if h is False:
        return "F"
    return str(h)


def logw_s(w):
    if w == float("-inf"):
        return "-inf"
    return exact(w)


def ser_wcnf(cnf):
    from problog.evaluator import SemiringLogProbability
    cl = " ".join("(%s %s)" % (head_s(c[0]), " ".join(str(x) for x in c[1:])) for c in cnf.clauses)
    ws = cnf.extract_weights(SemiringLogProbability())
    wl = " ".join("(%d %s %s)" % (i, logw_s(p), logw_s(n)) for i, (p, n) in ws.items())
    return "(clauses %s)" % cl, "(weights %s)" % wl, ws


def parse_wcnf(text):
    """-> (atomcount, nclauses, top, [(weight, [lits])])"""
    lines = text.split("\n")
    h = lines[0].split()
    cls = []
    for l in lines[1:]:
        t = l.split()
        if t:
            cls.append((int(t[0]), t[1:-1]))
    return int(h[2]), int(h[3]), int(h[4]), cls


def wt_int(w):
    """`wt1` of CNF._contents(weighted=int) (reference copy for the solver-optimality check)."""
    return int(max(-10000, w) * 10000)
