"""Correspondence of the tabled grounding engine with its Lean model on ground acyclic programs
(`lean/ProbLogModel/GroundAcyclic.lean`, driver `Drivers.GroundAcyclic`, theorems `ProbLogProofs.Properties.C01Ground`).

Used by C01 (ground_all), C03 (schedules) and C08 (histories): generated programs of the fragment are grounded by the
REAL engine (`DefaultEngine().prepare`, `ground_all` / successive `ground` on one target) and by the model; the two
ground programs must be EQUAL (same nodes in the same order, same key for every name, same AD constraints, same
table).  On a difference the engine's probabilities are compared with the Lean specification `Sem`
(`semcheck.spec_batch`) to find a failing input.

Program representation = `spine`'s (atoms `(pred, args)`, statements pf / fact / rule / prule / ad) without variables.
"""
import re
import traceback
from fractions import Fraction as F

import semcheck
import spine
from lib import Infra, rat

MODULE = "ProbLogProofs.Properties.C01Ground"
THEOREMS = [
    "ProbLogProofs.C01Ground.C01_ground_truth_spec",
    "ProbLogProofs.C01Ground.Ground_table_inv",
    "ProbLogProofs.C01Ground.C01_ground_acyclic_correct",
    "ProbLogProofs.C01Ground.C01_ground_acyclic_correct_init",
    "ProbLogProofs.C01Ground.ground_value_unique",
    "ProbLogProofs.C01Ground.C03_ground_schedule_independent",
    "ProbLogProofs.C01Ground.C08_ground_history_independent",
]

CONSTS = ["a", "b", "c"]


# ------------------------------------------------------------------------------------------------ generator
def _probs(rng, n):
    """n probabilities in tenths with sum <= 1."""
    while True:
        ps = [rng.randint(1, 5) for _ in range(n)]
        if sum(ps) <= 10:
            return [F(p, 10) for p in ps]


def gen_program(rng):
    """A ground program without positive recursion: the atoms `A[0..n)` are defined in this order, every body atom of a
    clause for `A[i]` is an earlier atom (or an atom that has no clause at all).  Returns the spine-style dict with
    queries/evidence (for ground_all) and `history` = a sequence of (label, atom) `ground` calls (C08 style)."""
    consts = CONSTS[:rng.choice([1, 2, 2, 3])]
    npred = rng.randint(2, 6)
    arity = {"p%d" % i: rng.choice([0, 0, 1, 1, 2]) for i in range(npred)}
    pool = []
    for p, ar in arity.items():
        if ar == 0:
            pool.append((p, ()))
        elif ar == 1:
            pool += [(p, (c,)) for c in consts]
        else:
            pool += [(p, (c, d)) for c in consts for d in consts]
    rng.shuffle(pool)
    n = rng.randint(2, min(len(pool), rng.choice([4, 6, 9, 12])))
    A = pool[:n]
    rest = pool[n:]           # atoms without any clause (their predicate gets a clause for other arguments)
    stmts = []

    def body_for(i, maxlen=3):
        lower = A[:i]
        body = []
        for _ in range(rng.randint(1, maxlen)):
            if rest and rng.random() < 0.08:
                at = rng.choice(rest)
            else:
                at = rng.choice(lower)
            body.append(("neg" if rng.random() < 0.3 else "pos", at))
        if rng.random() < 0.08:
            t, at = rng.choice(body)
            body.append(("neg" if t == "pos" else "pos", at))      # contradictory pair
        if rng.random() < 0.08:
            body.append(rng.choice(body))                          # repeated literal
        return body

    for i, h in enumerate(A):
        kinds = rng.choice([1, 1, 1, 2, 2, 3])
        if rng.random() < 0.06:
            kinds = 0                                              # an atom in the order without its own clause
        for _ in range(kinds):
            r = rng.random()
            if i == 0 or r < 0.22:
                st = ("pf", F(rng.randint(1, 9), 10), h)
            elif r < 0.30:
                st = ("fact", h)
            elif r < 0.45:
                st = ("prule", F(rng.randint(1, 9), 10), h, body_for(i))
            else:
                st = ("rule", h, body_for(i))
            stmts.append(st)
            if rng.random() < 0.07:
                stmts.append(st)                                   # duplicate clause
    for _ in range(rng.choice([0, 1, 1, 2])):
        nh = rng.choice([1, 2, 2, 3, 4])
        withbody = rng.random() < 0.5 and n >= 2
        lo = rng.randint(1, n - 1) if withbody else 0
        cands = A[lo:] + ([rng.choice(rest)] if rest and not withbody and rng.random() < 0.3 else [])
        heads = [rng.choice(cands) for _ in range(nh)]              # a head atom may occur twice
        body = body_for(lo, 2) if withbody else []
        if nh == 1 and not body:
            stmts.append(("pf", _probs(rng, 1)[0], heads[0]))     # (the text `p::h.` IS a probabilistic fact)
        else:
            stmts.append(("ad", list(zip(_probs(rng, nh), heads)), body))
    rng.shuffle(stmts)
    # every predicate that is called / queried needs at least one clause (otherwise UnknownClause: outside the fragment)
    defined = set()
    for s in stmts:
        if s[0] in ("pf", "fact"):
            defined.add(s[-1][0])
        elif s[0] == "rule":
            defined.add(s[1][0])
        elif s[0] == "prule":
            defined.add(s[2][0])
        else:
            defined.update(h[0] for _, h in s[1])
    for p in arity:
        if p not in defined:
            args = tuple(rng.choice(consts) for _ in range(arity[p]))
            stmts.insert(rng.randint(0, len(stmts)), ("pf", F(rng.randint(1, 9), 10), (p, args)) if rng.random() < 0.7
                         else ("fact", (p, args)))
    allatoms = A + rest
    qs = []
    for _ in range(rng.randint(1, 4)):
        at = rng.choice(A[n // 2:]) if rng.random() < 0.7 else rng.choice(allatoms)
        if at not in qs:
            qs.append(at)
    P = dict(consts=consts, preds={p: (ar, 0) for p, ar in arity.items()}, stmts=stmts, queries=qs, evidence=[])
    if rng.random() < 0.6:
        world = sample_world(P, rng)
        evs = []
        for _ in range(rng.randint(1, 3)):
            at = rng.choice(allatoms)
            val = (at in world) if rng.random() < 0.85 else (rng.random() < 0.5)
            if all(e[0] != at for e in evs):
                evs.append((at, val))
        P["evidence"] = evs
    # a history of ground calls on one target: everything once in random order, some calls repeated, some extra queries
    items = [("query", q) for q in qs] + [("evidence+" if v else "evidence-", a) for a, v in P["evidence"]]
    for _ in range(rng.choice([0, 0, 1, 2])):
        # extra calls: a further query, or one of the calls again (the evidence set stays P["evidence"])
        items.append(("query", rng.choice(allatoms)) if rng.random() < 0.6 else rng.choice(items))
    rng.shuffle(items)
    P["history"] = items
    return P


def sample_world(P, rng):
    """Atoms true in one sampled total choice (python helper for plausible evidence; not an oracle)."""
    rules, groups = spine.reference(P)
    chosen = set()
    for g in groups:
        r = rng.random()
        acc = 0.0
        for p, cid in g:
            acc += float(p)
            if r < acc:
                chosen.add(cid)
                break
    memo = {}

    def val(a):
        if a not in memo:
            memo[a] = False     # (acyclic: never read while being computed)
            memo[a] = any((c is None or c in chosen) and all(val(b) == (t == "pos") for t, b in body)
                          for h, body, c in rules if h == a)
        return memo[a]
    return {a for a in {h for h, _, _ in rules} if val(a)}


def clauses_src(P):
    return "\n".join(spine.stmt_src(s) for s in P["stmts"])


# ------------------------------------------------------------------------------------------------ compile for the model
class Compiled:
    pass


def compile_model(P):
    """The ClauseDB view of the program for the Lean model: per ground goal its clauses in source order; AD statements
    (and probabilistic rules) get an auxiliary body goal.  Numbering: atoms 0.. in order of first occurrence, then one
    auxiliary goal per AD statement; idents (= choice ids) in statement order; names: atoms = atom id, choice names after."""
    C = Compiled()
    C.atoms = {}

    def aid(a):
        if a not in C.atoms:
            C.atoms[a] = len(C.atoms)
        return C.atoms[a]
    for s in P["stmts"]:
        if s[0] in ("pf", "fact"):
            aid(s[-1])
        elif s[0] == "rule":
            aid(s[1])
            for _, b in s[2]:
                aid(b)
        elif s[0] == "prule":
            aid(s[2])
            for _, b in s[3]:
                aid(b)
        else:
            for _, h in s[1]:
                aid(h)
            for _, b in s[2]:
                aid(b)
    for q in P["queries"]:
        aid(q)
    for a, _ in P["evidence"]:
        aid(a)
    for _, a in P.get("history", []):
        aid(a)
    natoms = len(C.atoms)
    C.defs = {}        # goal id -> list of clause texts
    C.deps = {}        # goal id -> set of body goal ids
    C.facts = []       # per fact/pf statement (statement order): ident
    C.choices = []     # per AD head (statement order, head order): (ident, group number, name id)
    C.aux = {}         # AD statement index -> auxiliary goal id
    nident = 0
    ngroup = 0
    nname = natoms

    def lits(body):
        return " ".join("(%s %d)" % ("p" if t == "pos" else "n", aid(b)) for t, b in body)
    for si, s in enumerate(P["stmts"]):
        if s[0] in ("pf", "fact"):
            h = aid(s[-1])
            C.defs.setdefault(h, []).append("(fact %d %s %d)" % (nident, rat(s[1]) if s[0] == "pf" else "-", h))
            C.deps.setdefault(h, set())
            C.facts.append(nident)
            nident += 1
        elif s[0] == "rule":
            h = aid(s[1])
            C.defs.setdefault(h, []).append("(rule (%s) -)" % lits(s[2]))
            C.deps.setdefault(h, set()).update(aid(b) for _, b in s[2])
        else:
            heads, body = ([(s[1], s[2])], s[3]) if s[0] == "prule" else (s[1], s[2])
            g = natoms + ngroup
            ngroup += 1
            C.aux[si] = g
            C.defs[g] = ["(rule (%s) -)" % (lits(body) if body else "t")]
            C.deps[g] = {aid(b) for _, b in body}
            for p, hd in heads:
                h = aid(hd)
                C.defs.setdefault(h, []).append("(rule ((p %d)) (%d %d %s %d))" % (g, nident, ngroup, rat(p), nname))
                C.deps.setdefault(h, set()).add(g)
                C.choices.append((nident, ngroup, nname))
                nident += 1
                nname += 1
    C.ngoals = natoms + ngroup
    # ranks: longest path (the generator guarantees acyclicity; a cycle here is a generator bug)
    rank = {}

    def rk(a, depth=0):
        if depth > C.ngoals + 1:
            raise Infra("ground_util: generated program is cyclic")
        if a not in rank:
            rank[a] = 1 + max([rk(b, depth + 1) for b in C.deps.get(a, ())] or [-1])
        return rank[a]
    for a in range(C.ngoals):
        rk(a)
    C.rank = rank
    C.prog = "(%s)" % " ".join("(%d %s)" % (a, " ".join(cs)) for a, cs in sorted(C.defs.items()))
    C.ranks = "(%s)" % " ".join("(%d %d)" % (a, r) for a, r in sorted(rank.items()))
    C.fuel = max(rank.values()) + 2
    return C


LABELS = {"query": "query", "evidence+": "ev+", "evidence-": "ev-"}
OPTS = "(opts t f f f 0 f)"


def model_line(C, calls, sched):
    """calls: [(label, atom)], sched: {goal id: selection code}."""
    cs = " ".join("(%d %s)" % (C.atoms[a], LABELS[l]) for l, a in calls)
    sc = " ".join("(%d %s)" % (g, " ".join(map(str, code))) for g, code in sorted(sched.items()))
    return "GROUND %s %s (%s) (%s) %s %d" % (OPTS, C.prog, cs, sc, C.ranks, C.fuel)


# ------------------------------------------------------------------------------------------------ the real engine
def run_real(P, mode, sched_seed=None, want_probs=False):
    """Ground with the real engine.  mode "all": engine.ground_all(queries, evidence); mode "history": successive
    engine.ground(db, atom, target=target, label=...) on one target.
    Returns dict(store=canonical text, table=..., sched={goal: code} | error=...), picklable."""
    from problog.program import PrologString
    from problog.engine import DefaultEngine
    from problog.logic import Term
    import problog.engine_stack as es
    C = compile_model(P)
    out = {}
    recorded = []
    orig = getattr(es, "_verif_shuffle", None)

    def rec(messages):
        msgs = list(messages)
        res = orig(msgs)
        if len(msgs) > 1 and all(m[0] == "e" for m in msgs):
            recorded.append((msgs[0][3].get("call"), [m[1] for m in reversed(msgs)], [m[1] for m in reversed(res)]))
        return res
    try:
        engine = DefaultEngine()
        db = engine.prepare(PrologString(clauses_src(P)))
        idmap, groupmap = _db_maps(db, P, C)
        if sched_seed is not None:
            if orig is None:
                raise Infra("schedule hook _verif_shuffle missing in engine_stack")
            es._verif_shuffle = rec
            es._verif_set_schedule(sched_seed)
        try:
            if mode == "all":
                qs = [Term.from_string(spine.atom_s(q)) for q in P["queries"]]
                evs = [(Term.from_string(spine.atom_s(a)), v) for a, v in P["evidence"]]
                target = engine.ground_all(db, queries=qs, evidence=evs)
            else:
                target = None
                for label, a in P["history"]:
                    target = engine.ground(db, Term.from_string(spine.atom_s(a)), target=target, label=label)
        finally:
            if sched_seed is not None:
                es._verif_set_schedule(None)
                es._verif_shuffle = orig
        out["store"] = ser_formula(target, C, idmap, groupmap)
        out["table"] = ser_cache(target, C, groupmap)
        sched = {}
        for goal, before, after in recorded:
            if goal is None:
                raise Infra("schedule batch without a goal")
            g = C.atoms.get(_goal_atom(goal))
            if g is None or len(before) != len(C.defs.get(g, ())) or g in sched:
                out["sched_mismatch"] = "batch %s of %d clauses (model: %s)" % (goal, len(before), C.defs.get(g))
                continue
            remaining = list(before)
            code = []
            for x in after:
                j = remaining.index(x)
                code.append(j)
                remaining.pop(j)
            sched[g] = code
        out["sched"] = sched
        if want_probs:
            out["probs"] = _evaluate(target)
    except Infra:
        raise
    except Exception as e:
        out["error"] = (type(e).__name__, semcheck.site_of(e), traceback.format_exc()[-600:])
    return out


def _evaluate(target):
    from problog import get_evaluatable

    def body():
        r = get_evaluatable().create_from(target).evaluate()
        return {str(k): v for k, v in r.items()}
    try:
        return ("ok", spine.with_timeout(20, body))
    except spine.Timeout:
        return ("error", ("run", "Timeout", ""))
    except Exception as e:
        return ("error", ("run", type(e).__name__, semcheck.site_of(e)))


def _goal_atom(goal):
    functor, ctx = goal
    return (str(functor), tuple(str(x) for x in ctx))


def _db_maps(db, P, C):
    """Python atom identifiers / AD groups -> the model's numbers: the k-th `fact` node of the ClauseDB is the k-th
    fact statement, the k-th `choice` node the k-th AD head (checked against functor and probability)."""
    facts = [s for s in P["stmts"] if s[0] in ("pf", "fact")]
    heads = []
    for s in P["stmts"]:
        if s[0] == "prule":
            heads.append((s[1], s[2]))
        elif s[0] == "ad":
            heads += list(s[1])
    idmap, groupmap = {}, {}
    fi = ci = 0
    for i, n in db.enum_nodes():
        ty = type(n).__name__
        if ty == "fact":
            if fi >= len(facts):
                raise Infra("ground_util: more fact nodes than fact statements")
            s = facts[fi]
            if (str(n.functor), tuple(map(str, n.args))) != s[-1]:
                raise Infra("ground_util: fact node %s does not match statement %s" % (n, s))
            idmap[i] = C.facts[fi]
            fi += 1
        elif ty == "choice":
            if ci >= len(heads):
                raise Infra("ground_util: more choice nodes than AD heads")
            ident, grp, nm = C.choices[ci]
            if n.group in groupmap and groupmap[n.group] != grp:
                raise Infra("ground_util: AD group numbering mismatch")
            groupmap[n.group] = grp
            idmap[(n.group, n.choice)] = (ident, nm)
            ci += 1
    if fi != len(facts) or ci != len(heads):
        raise Infra("ground_util: ClauseDB has %d fact / %d choice nodes, program %d / %d" % (fi, ci, len(facts), len(heads)))
    return idmap, groupmap


def _name(nm, C, groupmap):
    if nm is None:
        return "-"
    s = str(nm)
    neg = ""
    if s.startswith("\\+"):
        neg, s = "~", s[2:]
    m = re.match(r"choice\((\d+),(\w+),", s)
    if m:
        g = int(m.group(1))
        if m.group(2) == "e":
            return "%sx%d" % (neg, groupmap[g])
        return "%sn%d" % (neg, C.choice_name[(g, int(m.group(2)))])
    m = re.match(r"(\w+)(?:\((.*)\))?$", s)
    at = (m.group(1), tuple(m.group(2).split(",")) if m.group(2) else ())
    if at not in C.atoms:
        raise Infra("ground_util: unexpected node name %s" % s)
    return "%sn%d" % (neg, C.atoms[at])


def ser_formula(f, C, idmap, groupmap):
    """Canonical text of a LogicFormula in the model's numbering (same format as `spine.canon_store` of the driver's
    store)."""
    C.choice_name = {k: v[1] for k, v in idmap.items() if isinstance(k, tuple)}
    nodes = []
    for n in f._nodes:
        ty = type(n).__name__
        if ty == "atom":
            idt = n.identifier
            if isinstance(idt, int):
                ident = str(idmap[idt])
            elif isinstance(idt, tuple):
                ident = str(idmap[(idt[0], idt[2])][0])
            else:
                m = re.match(r"\((\d+), ", idt)
                ident = "x%d" % groupmap[int(m.group(1))]
            g = "-" if n.group is None else str(groupmap[n.group[0]])
            nodes.append("(atom %s %s %s %s)" % (ident, g, "t" if n.is_extra else "f", _name(n.name, C, groupmap)))
        else:
            nodes.append("(%s (%s) %s)" % (ty, " ".join(spine.k2s(c) for c in n.children), _name(n.name, C, groupmap)))
    ws = ["(%d %s)" % (i, spine.w2s(w)) for i, w in f.get_weights().items()]
    names = ["(%s %s %s)" % (spine.label_s(l), _name(nm, C, groupmap), spine.k2s(k)) for nm, k, l in f.get_names_with_label()]
    adl = []
    for c in f.constraints():
        if type(c).__name__ == "ConstraintAD":
            adl.append("(%d (%s) %s)" % (groupmap[c.group[0]], " ".join(str(x) for x in sorted(c.nodes)),
                                         "-" if c.extra_node is None else c.extra_node))
    return spine.canon_store("(store %s (nodes %s) (weights %s) (names %s) (ads %s))" % (
        OPTS, " ".join(nodes), " ".join(ws), " ".join(names), " ".join(adl)))


def ser_cache(target, C, groupmap):
    """The ground part of the DefineCache of the target as sorted `(goal key)` text."""
    cache = getattr(target, "_cache", None)
    if cache is None:
        return ""
    base = cache._DefineCache__ground._NestedDict__base
    out = []

    def walk(functor, args, d, depth):
        if depth == 0:
            for state, v in d.items():
                if state:
                    raise Infra("ground_util: table entry with state")
                m = re.match(r"body_\d+$", functor)
                if m:
                    g = C.aux_by_group[groupmap[int(str(args[0]))]]
                else:
                    g = C.atoms[(functor, tuple(str(x) for x in args))]
                out.append((g, spine.k2s(v)))
        else:
            for k, sub in d.items():
                walk(functor, args + [k], sub, depth - 1)
    C.aux_by_group = {}
    for k, (si, g) in enumerate(sorted(C.aux.items())):
        C.aux_by_group[k + 1] = g
    for (functor, ar), d in base.items():
        walk(functor, [], d, ar)
    return " ".join("(%d %s)" % e for e in sorted(out))


def parse_model(out):
    """-> (acyclic, fuel_ok, table text, canonical store) or an error string"""
    if not out.startswith("ok "):
        return out
    m = re.match(r"ok (\w) (\w) \(table(.*?)\) (\(store .*\))$", out)
    if not m:
        raise Infra("bad GROUND output: " + out[:200])
    tab = sorted((int(a), k) for a, k in re.findall(r"\((\d+) (\S+)\)", m.group(3)))
    return (m.group(1) == "t", m.group(2) == "t", " ".join("(%d %s)" % e for e in tab), spine.canon_store(m.group(4)))


# ------------------------------------------------------------------------------------------------ the phase
def _work(item):
    P, mode, seed, probs = item
    return run_real(P, mode, seed, probs)


def phase(ctx, kind, nq, nt):
    """kind: "all" (C01: ground_all, no schedule), "sched" (C03: ground_all under seeded schedules),
    "history" (C08: successive ground calls on one target, with and without a schedule)."""
    from lib import pmap
    ctx.proof_phase(MODULE, THEOREMS)
    drv = ctx.driver("Drivers.GroundAcyclic")
    sdrv = ctx.driver("Drivers.Spine")
    if drv is None or sdrv is None:
        return
    rng = ctx.sub_rng("ground-acyclic-" + kind)
    n = ctx.budget(nq, nt)
    items = []
    if ctx.replay_in:
        import json
        rp = json.load(open(ctx.replay_in)).get("replay", {})
        if not str(rp.get("tag", "")).startswith("ground-"):
            return                     # a replay of one of the caller's other phases
        items.append((_restore(rp["program"], rp.get("history")), rp["mode"], rp.get("sched_seed"), False))
        n = 1
    else:
        for P in [gen_program(rng) for _ in range(n)]:
            if kind == "all":
                items.append((P, "all", None, False))
            elif kind == "sched":
                items.append((P, "all", rng.randrange(1 << 30), False))
            else:
                items.append((P, "history", rng.randrange(1 << 30) if rng.random() < 0.5 else None, False))
    # (a process pool costs more than it saves on a few hundred programs of ~10 ms each)
    reals = [_work(x) for x in items] if len(items) <= 500 else pmap(_work, items, chunksize=32)
    lines, comps = [], []
    for (P, mode, seed, _), R in zip(items, reals):
        C = compile_model(P)
        comps.append(C)
        calls = ([("query", q) for q in P["queries"]] + [("evidence+" if v else "evidence-", a) for a, v in P["evidence"]]
                 if mode == "all" else P["history"])
        lines.append(model_line(C, calls, R.get("sched", {})))
    outs = drv.run(lines)
    nbad = 0
    for (P, mode, seed, _), R, C, out in zip(items, reals, comps, outs):
        src = clauses_src(P)
        ctx.case("ground:%s:%s:%s:%s" % (kind, src, P["history"] if mode == "history" else (P["queries"], P["evidence"]), seed),
                 nontrivial=any(s[0] in ("rule", "prule", "ad") for s in P["stmts"]))
        ctx.count("ground-model:" + kind)
        if seed is not None:
            ctx.count("ground-model:scheduled")
            if R.get("sched"):
                ctx.count("ground-model:permuted-batches", len(R["sched"]))
        M = parse_model(out)
        diff = None
        if "error" in R:
            diff = "engine raised %s at %s; model: %s" % (R["error"][0], R["error"][1], str(M)[:200])
        elif isinstance(M, str):
            diff = "model: %s; engine grounded without error" % M
        elif not (M[0] and M[1]):
            raise Infra("ground_util: hypotheses of the theorems (wfB / fuel) rejected by the driver (generator bug): %s" % src)
        elif "sched_mismatch" in R:
            diff = "sibling batch does not match the model's clause list: " + R["sched_mismatch"]
        elif M[3] != R["store"]:
            diff = "ground programs differ\n engine: %s\n model:  %s" % (R["store"], M[3])
        elif M[2] != R["table"]:
            diff = "tables differ\n engine: %s\n model:  %s" % (R["table"], M[2])
        if len(ctx.samples) < 2:
            ctx.sample({"ground-model": kind, "src": src, "calls": str(P["history"] if mode == "history" else (P["queries"], P["evidence"])),
                        "sched": R.get("sched"), "store": R.get("store", "")[:300]})
        if diff is None:
            continue
        nbad += 1
        ctx.disagree("grounding engine vs model (%s)" % kind, "%s | program: %s | calls: %s | sched seed %s" % (
            diff, src.replace("\n", " "), P["history"] if mode == "history" else (P["queries"], P["evidence"]), seed))
        if nbad <= 8:
            find_failing_input(ctx, sdrv, P, mode, seed, kind)
    ctx.obligation("correspondence: grounding engine = model on %d ground acyclic programs (%s)" % (n, kind), nbad == 0,
                   "%d differences" % nbad)


def _tup(x):
    return tuple(_tup(y) for y in x) if isinstance(x, list) else x


def _restore(P, history):
    """A program that went through JSON (tuples became lists, Fractions strings)."""
    P = dict(P)
    st = []
    for s in P["stmts"]:
        s = list(s)
        if s[0] == "pf":
            st.append(("pf", F(s[1]), _tup(s[2])))
        elif s[0] == "fact":
            st.append(("fact", _tup(s[1])))
        elif s[0] == "rule":
            st.append(("rule", _tup(s[1]), [_tup(l) for l in s[2]]))
        elif s[0] == "prule":
            st.append(("prule", F(s[1]), _tup(s[2]), [_tup(l) for l in s[3]]))
        else:
            st.append(("ad", [(F(p), _tup(h)) for p, h in s[1]], [_tup(l) for l in s[2]]))
    P["stmts"] = st
    P["queries"] = [_tup(q) for q in P["queries"]]
    P["evidence"] = [(_tup(a), v) for a, v in P["evidence"]]
    P["preds"] = {k: tuple(v) for k, v in P["preds"].items()}
    P["history"] = [(l, _tup(a)) for l, a in (history if history is not None else P.get("history", []))]
    return P


def _with_history(c, P):
    """The candidate program with the calls of P's history that survive (same order)."""
    qs = set(c["queries"])
    ev = {a: v for a, v in c["evidence"]}
    c = dict(c)
    c["history"] = [(l, a) for l, a in P.get("history", [])
                    if (l == "query" and a in qs) or (l != "query" and ev.get(a) == (l == "evidence+"))]
    return c


def _check_sem(ctx, sdrv, P, mode, seed, kind):
    """(Q, [(what, signature)]): the engine's probabilities for this program / call sequence against `Sem`."""
    if mode == "history":
        qs = []
        for l, a in P["history"]:
            if l == "query" and a not in qs:
                qs.append(a)
        Q = dict(P, queries=qs)
    else:
        Q = P
    sem = semcheck.spec_batch(sdrv, [Q])[0]
    R = run_real(P, mode, seed, want_probs=True)
    if "error" in R:
        run = ("error", ("ground", R["error"][0], R["error"][1]))
    else:
        run = R["probs"]
    return Q, semcheck.compare(Q, sem, run, "ground-%s" % kind, ctx)


def find_failing_input(ctx, sdrv, P, mode, seed, kind):
    """Independent of the model: compare the engine with the specification on this input; shrink a failure."""
    Q, bad = _check_sem(ctx, sdrv, P, mode, seed, kind)
    for what, sig in bad:
        small = P
        if getattr(ctx, "_ground_nshrunk", 0) < 2 and ctx.known_match(sig) is None:
            ctx._ground_nshrunk = getattr(ctx, "_ground_nshrunk", 0) + 1
            from props.c01 import shrink_program

            def still(c):
                c = _with_history(c, P)
                if mode == "history" and not c["history"]:
                    return False
                return any(semcheck.same_failure(s2, sig) for _, s2 in _check_sem(ctx, sdrv, c, mode, seed, kind)[1])
            try:
                small = _with_history(shrink_program(P, still), P)
            except Exception:
                small = P
        Qs = _check_sem(ctx, sdrv, small, mode, seed, kind)[0] if small is not P else Q
        ctx.fail(what + " | program: " + spine.to_src(Qs).replace("\n", " "),
                 {"program": Qs, "src": spine.to_src(Qs), "tag": "ground-" + kind, "mode": mode, "sched_seed": seed,
                  "history": small.get("history")}, sig)
        break


def is_ground_replay(ctx):
    """--replay of a failing input that this phase produced (tag ground-*)."""
    if not ctx.replay_in:
        return False
    import json
    try:
        return str(json.load(open(ctx.replay_in)).get("replay", {}).get("tag", "")).startswith("ground-")
    except Exception:
        return False


def guarded(ctx, kind, nq, nt):
    """Run the phase; a harness exception inside it is returned (not raised) so that the caller's other phases still run
    and report; `after` turns it into an infrastructure error unless a violation was reported anyway."""
    try:
        phase(ctx, kind, nq, nt)
        return None
    except Exception as e:     # noqa: B902 - deliberately everything: reported by `after`
        return "%s: %s | %s" % (type(e).__name__, e, traceback.format_exc()[-1500:])


def after(rc, gerr):
    if gerr is not None and rc == 0:
        raise Infra("ground-model phase (harness/ground_util.py) failed: " + gerr)
    return rc
