"""py2lean_arith — translator from `problog/logic.py: _arithmetic_functions` (Python `ast`) to Lean 4.

Output: the text of `lean/ProbLogModel/Generated/ArithTable.lean` — one `def py_<name>_<arity>` over `PyNum`
(hand-written support: `lean/ProbLogModel/PyNum.lean`) for every table entry inside the supported subset, the key
lists (translated / taken from `math` / named constants) and the exception classes that `compute_function` maps to
`ArithmeticError`.  Entries outside the subset are *reported* (`Result.failed`), never raised.

Supported subset of a lambda body: parameters, int/float literals, `+ - * / // % ** & | ^ ~ << >>`, unary `+ -`,
conditional expressions, comparison chains, `and`/`or`/`not` on comparisons, `==`/`!=` between comparisons,
`int float abs min max round`, `math.floor/ceil/trunc`, `type(p)(e)`.  A table value may also be one of the names
`int float abs min max`, a `math.<f>` attribute (recorded by name only), or a zero-argument lambda returning
`math.pi`, `math.e`, `sys.float_info.epsilon`, `float("inf")`, `float("nan")` (recorded by name only).

This package is used by harness/props/c16.py only.
"""
import ast
import os
from fractions import Fraction

MANGLE = {
    "+": "plus", "-": "minus", "*": "times", "/": "slash", "//": "intdiv", "/\\": "bitand", "\\/": "bitor",
    "#": "hash", "><": "gtlt", "<<": "shl", ">>": "shr", "**": "starstar", "^": "caret", "\\": "bitnot",
}
BINOPS = {
    ast.Add: "add", ast.Sub: "sub", ast.Mult: "mul", ast.Div: "truediv", ast.FloorDiv: "floordiv", ast.Mod: "mod",
    ast.Pow: "pow", ast.BitAnd: "band", ast.BitOr: "bor", ast.BitXor: "bxor", ast.LShift: "shl", ast.RShift: "shr",
}
UNOPS = {ast.USub: "neg", ast.UAdd: "pos", ast.Invert: "invert"}
CMPOPS = {ast.Lt: "lt", ast.LtE: "le", ast.Gt: "gt", ast.GtE: "ge", ast.Eq: "eq", ast.NotEq: "ne"}
CALLS1 = {"int": "toInt", "float": "toFloat", "abs": "abs", "round": "round"}
CALLS2 = {"min": "min", "max": "max"}
MATHCALLS1 = {"floor": "floor", "ceil": "ceil", "trunc": "trunc"}
NAMES_AS_VALUES = {("int", 1): "toInt", ("float", 1): "toFloat", ("abs", 1): "abs", ("min", 2): "min", ("max", 2): "max"}
LEAN_RESERVED = {"fun", "let", "do", "if", "then", "else", "at", "in", "from", "have", "show", "end", "def", "match",
                 "with", "open", "by", "pure", "t", "PyNum", "PyRes"}


class Unsupported(Exception):
    pass


def lean_str(s):
    return '"' + s.replace("\\", "\\\\").replace('"', '\\"') + '"'


def mangle(name, arity):
    if name in MANGLE:
        base = MANGLE[name]
    elif name.isidentifier():
        base = name
    else:
        raise Unsupported("functor %r has no Lean name" % name)
    return "py_%s_%d" % (base, arity)


def lean_int(n):
    return "(PyNum.int %d)" % n if n >= 0 else "(PyNum.int (%d))" % n


def lean_float(x):
    if x != x or x in (float("inf"), float("-inf")):
        raise Unsupported("non-finite float literal")
    f = Fraction(x)
    return "(PyNum.flt ((%d : Rat) / %d))" % (f.numerator, f.denominator)


class Body:
    """Translation of one lambda body into a `do` block over `Except PyErr`."""

    def __init__(self, params):
        self.params = params
        self.n = 0

    def fresh(self):
        self.n += 1
        return "t%d" % self.n

    def block(self, stmts, result, indent):
        pad = " " * indent
        if not stmts:
            return "pure %s" % result
        stmts = list(stmts)
        final = "pure %s" % result
        if stmts[-1].startswith("let %s ← " % result) and "\n" not in stmts[-1]:
            final = stmts.pop()[len("let %s ← " % result):]
            if not stmts:
                return final
        lines = ["do"]
        for s in stmts:
            lines.append(pad + "  " + s.replace("\n", "\n" + pad + "  "))
        lines.append(pad + "  " + final)
        return "\n".join(lines)

    # every tr_* returns (stmts, atom, type) with type in {"num", "bool"}
    def tr(self, e):
        if isinstance(e, ast.Name):
            if e.id in self.params:
                return [], self.params[e.id], "num"
            raise Unsupported("free name %s" % e.id)
        if isinstance(e, ast.Constant):
            if type(e.value) is int:
                return [], lean_int(e.value), "num"
            if type(e.value) is float:
                return [], lean_float(e.value), "num"
            raise Unsupported("literal %r" % (e.value,))
        if isinstance(e, ast.BinOp):
            op = BINOPS.get(type(e.op))
            if op is None:
                raise Unsupported("operator %s" % type(e.op).__name__)
            ls, la, lt = self.tr(e.left)
            rs, ra, rt = self.tr(e.right)
            if lt != "num" or rt != "num":
                raise Unsupported("arithmetic on a truth value")
            t = self.fresh()
            return ls + rs + ["let %s ← PyNum.%s %s %s" % (t, op, la, ra)], t, "num"
        if isinstance(e, ast.UnaryOp):
            if isinstance(e.op, ast.Not):
                s, a, ty = self.tr(e.operand)
                if ty != "bool":
                    raise Unsupported("`not` of a number")
                return s, "(!%s)" % a, "bool"
            op = UNOPS.get(type(e.op))
            if op is None:
                raise Unsupported("unary operator")
            if isinstance(e.op, ast.USub) and isinstance(e.operand, ast.Constant) and type(e.operand.value) is int:
                return [], lean_int(-e.operand.value), "num"  # the literal -1 (CPython folds it as well)
            s, a, ty = self.tr(e.operand)
            if ty != "num":
                raise Unsupported("arithmetic on a truth value")
            t = self.fresh()
            return s + ["let %s ← PyNum.%s %s" % (t, op, a)], t, "num"
        if isinstance(e, ast.IfExp):
            cs, ca, cty = self.tr(e.test)
            if cty != "bool":
                raise Unsupported("condition is not a comparison")
            bs, ba, bty = self.tr(e.body)
            os_, oa, oty = self.tr(e.orelse)
            if bty != oty:
                raise Unsupported("branches of different type")
            t = self.fresh()
            stmt = "let %s ← (if %s then %s\n  else %s)" % (t, ca, self.block(bs, ba, 2), self.block(os_, oa, 2))
            return cs + [stmt], t, bty
        if isinstance(e, ast.Compare):
            operands = [e.left] + list(e.comparators)
            tr = [self.tr(x) for x in operands]
            tys = {x[2] for x in tr}
            if tys == {"bool"}:
                if len(e.ops) != 1 or type(e.ops[0]) not in (ast.Eq, ast.NotEq):
                    raise Unsupported("comparison of truth values")
                op = "==" if isinstance(e.ops[0], ast.Eq) else "!="
                return tr[0][0] + tr[1][0], "(%s %s %s)" % (tr[0][1], op, tr[1][1]), "bool"
            if tys != {"num"}:
                raise Unsupported("comparison of mixed types")
            if len(e.ops) == 1:
                op = CMPOPS.get(type(e.ops[0]))
                if op is None:
                    raise Unsupported("comparison operator")
                return tr[0][0] + tr[1][0], "(PyNum.%s %s %s)" % (op, tr[0][1], tr[1][1]), "bool"
            # chain a op b op c: short-circuit, every operand evaluated at most once
            stmts = list(tr[0][0]) + list(tr[1][0])
            op = CMPOPS.get(type(e.ops[0]))
            if op is None:
                raise Unsupported("comparison operator")
            acc = "(PyNum.%s %s %s)" % (op, tr[0][1], tr[1][1])
            for i in range(1, len(e.ops)):
                op = CMPOPS.get(type(e.ops[i]))
                if op is None:
                    raise Unsupported("comparison operator")
                t = self.fresh()
                rhs = self.block(tr[i + 1][0], "(PyNum.%s %s %s)" % (op, tr[i][1], tr[i + 1][1]), 2)
                stmts.append("let %s ← (if %s then %s\n  else pure false)" % (t, acc, rhs))
                acc = t
            return stmts, acc, "bool"
        if isinstance(e, ast.BoolOp):
            parts = [self.tr(v) for v in e.values]
            if {p[2] for p in parts} != {"bool"}:
                raise Unsupported("and/or on numbers")
            stmts, acc = list(parts[0][0]), parts[0][1]
            for s, a, _ in parts[1:]:
                t = self.fresh()
                if isinstance(e.op, ast.And):
                    stmts.append("let %s ← (if %s then %s\n  else pure false)" % (t, acc, self.block(s, a, 2)))
                else:
                    stmts.append("let %s ← (if %s then pure true\n  else %s)" % (t, acc, self.block(s, a, 2)))
                acc = t
            return stmts, acc, "bool"
        if isinstance(e, ast.Call):
            if e.keywords:
                raise Unsupported("keyword arguments")
            f = e.func
            fn = None
            if isinstance(f, ast.Name) and len(e.args) == 1 and f.id in CALLS1:
                fn = CALLS1[f.id]
            elif isinstance(f, ast.Name) and len(e.args) == 2 and f.id in CALLS2:
                fn = CALLS2[f.id]
            elif (isinstance(f, ast.Attribute) and isinstance(f.value, ast.Name) and f.value.id == "math"
                  and f.attr in MATHCALLS1 and len(e.args) == 1):
                fn = MATHCALLS1[f.attr]
            elif (isinstance(f, ast.Call) and isinstance(f.func, ast.Name) and f.func.id == "type" and len(f.args) == 1
                  and not f.keywords and isinstance(f.args[0], ast.Name) and f.args[0].id in self.params
                  and len(e.args) == 1):
                s, a, ty = self.tr(e.args[0])
                if ty != "num":
                    raise Unsupported("cast of a truth value")
                t = self.fresh()
                return s + ["let %s ← PyNum.castLike %s %s" % (t, self.params[f.args[0].id], a)], t, "num"
            if fn is None:
                raise Unsupported("call of %s" % ast.unparse(f))
            stmts, atoms = [], []
            for x in e.args:
                s, a, ty = self.tr(x)
                if ty != "num":
                    raise Unsupported("truth value as argument")
                stmts += s
                atoms.append(a)
            t = self.fresh()
            return stmts + ["let %s ← PyNum.%s %s" % (t, fn, " ".join(atoms))], t, "num"
        raise Unsupported("expression %s" % type(e).__name__)


def const_kind(body):
    """Zero-argument lambdas that name a constant."""
    src = ast.unparse(body)
    return {"math.pi": "pi", "math.e": "e", "sys.float_info.epsilon": "epsilon", "float('inf')": "inf",
            "float('nan')": "nan"}.get(src)


def translate_lambda(name, arity, lam):
    a = lam.args
    if a.vararg or a.kwarg or a.kwonlyargs or a.defaults or a.posonlyargs:
        raise Unsupported("lambda signature")
    pnames = [x.arg for x in a.args]
    if len(pnames) != arity:
        raise Unsupported("lambda takes %d parameters, key says %d" % (len(pnames), arity))
    params = {}
    for p in pnames:
        params[p] = p if (p.isidentifier() and p not in LEAN_RESERVED and not p.startswith("t")) else "p_" + p
    b = Body(params)
    stmts, atom, ty = b.tr(lam.body)
    if ty != "num":
        raise Unsupported("body is a truth value")
    # return the last operation directly when it defines the result
    if stmts and stmts[-1].startswith("let %s ← " % atom):
        last = stmts[-1][len("let %s ← " % atom):]
        body = "\n".join(["  " + s.replace("\n", "\n  ") for s in stmts[:-1]] + ["  " + last.replace("\n", "\n  ")])
    else:
        body = "\n".join(["  " + s.replace("\n", "\n  ") for s in stmts] + ["  pure %s" % atom])
    return [params[p] for p in pnames], body


class Result:
    def __init__(self):
        self.entries = {}      # (name, arity) -> ("fn", leanname, params, body, src) | ("math", attr) | ("const", what)
        self.failed = []       # ((name, arity) or str, reason)
        self.mapped_errors = []
        self.text = ""

    def keys(self, kind):
        return sorted(k for k, v in self.entries.items() if v[0] == kind)


def _key(node):
    if (isinstance(node, ast.Tuple) and len(node.elts) == 2 and isinstance(node.elts[0], ast.Constant)
            and isinstance(node.elts[0].value, str) and isinstance(node.elts[1], ast.Constant)
            and type(node.elts[1].value) is int):
        return node.elts[0].value, node.elts[1].value
    return None


def _entry(res, key, value):
    name, arity = key
    src = ast.unparse(value)
    try:
        if isinstance(value, ast.Lambda):
            if arity == 0 and not value.args.args:
                ck = const_kind(value.body)
                if ck is not None:
                    new = ("const", ck, src)
                else:
                    params, body = translate_lambda(name, arity, value)
                    new = ("fn", mangle(name, arity), params, body, src)
            else:
                params, body = translate_lambda(name, arity, value)
                new = ("fn", mangle(name, arity), params, body, src)
        elif isinstance(value, ast.Name) and (value.id, arity) in NAMES_AS_VALUES:
            params = ["a", "b"][:arity]
            new = ("fn", mangle(name, arity), params, "  PyNum.%s %s" % (NAMES_AS_VALUES[(value.id, arity)], " ".join(params)), src)
        elif isinstance(value, ast.Attribute) and isinstance(value.value, ast.Name) and value.value.id == "math":
            new = ("math", value.attr, src)
        else:
            raise Unsupported("table value %s" % src)
    except Unsupported as e:
        res.failed.append((key, "%s: %s" % (src, e)))
        res.entries.pop(key, None)
        return
    old = res.entries.get(key)
    if old is not None and old[-1] != new[-1]:
        # a later duplicate key wins in Python; keep the later one (and say so)
        pass
    res.entries[key] = new


def translate_source(source):
    """Translate the text of problog/logic.py. Never raises for unsupported input."""
    res = Result()
    try:
        tree = ast.parse(source)
    except SyntaxError as e:
        res.failed.append(("logic.py", "syntax error: %s" % e))
        return res
    math_lists = {}
    found_table = False
    for st in tree.body:
        mentions = any(isinstance(n, ast.Name) and n.id == "_arithmetic_functions" for n in ast.walk(st))
        if isinstance(st, ast.Assign) and len(st.targets) == 1 and isinstance(st.targets[0], ast.Name):
            tgt = st.targets[0].id
            if tgt == "_arithmetic_functions":
                if not isinstance(st.value, ast.Dict) or found_table:
                    res.failed.append(("_arithmetic_functions", "table is not a single dict literal"))
                    continue
                found_table = True
                for k, v in zip(st.value.keys, st.value.values):
                    key = _key(k) if k is not None else None
                    if key is None:
                        res.failed.append(("_arithmetic_functions", "key %s" % (ast.unparse(k) if k is not None else "**")))
                        continue
                    _entry(res, key, v)
                continue
            if (isinstance(st.value, ast.List) and all(isinstance(x, ast.Constant) and isinstance(x.value, str)
                                                        for x in st.value.elts)):
                math_lists[tgt] = [x.value for x in st.value.elts]
                if not mentions:
                    continue
        if not mentions or isinstance(st, (ast.FunctionDef, ast.ClassDef)):
            continue
        # for _f in <list>: _arithmetic_functions[(_f, N)] = getattr(math, _f)
        if (isinstance(st, ast.For) and isinstance(st.target, ast.Name) and isinstance(st.iter, ast.Name)
                and st.iter.id in math_lists and len(st.body) == 1 and not st.orelse):
            b = st.body[0]
            ok = (isinstance(b, ast.Assign) and len(b.targets) == 1 and isinstance(b.targets[0], ast.Subscript)
                  and isinstance(b.targets[0].value, ast.Name) and b.targets[0].value.id == "_arithmetic_functions"
                  and isinstance(b.targets[0].slice, ast.Tuple) and len(b.targets[0].slice.elts) == 2
                  and isinstance(b.targets[0].slice.elts[0], ast.Name) and b.targets[0].slice.elts[0].id == st.target.id
                  and isinstance(b.targets[0].slice.elts[1], ast.Constant) and type(b.targets[0].slice.elts[1].value) is int
                  and ast.unparse(b.value) == "getattr(math, %s)" % st.target.id)
            if ok:
                ar = b.targets[0].slice.elts[1].value
                for nm in math_lists[st.iter.id]:
                    if not hasattr(__import__("math"), nm):
                        res.failed.append(((nm, ar), "math has no attribute %s" % nm))
                        continue
                    res.entries[(nm, ar)] = ("math", nm, "getattr(math, %r)" % nm)
                continue
        # _arithmetic_functions[(name, N)] = value
        if (isinstance(st, ast.Assign) and len(st.targets) == 1 and isinstance(st.targets[0], ast.Subscript)
                and isinstance(st.targets[0].value, ast.Name) and st.targets[0].value.id == "_arithmetic_functions"):
            key = _key(st.targets[0].slice)
            if key is not None:
                _entry(res, key, st.value)
                continue
        res.failed.append(("_arithmetic_functions", "unrecognised statement: %s" % ast.unparse(st)[:120]))
    if not found_table:
        res.failed.append(("_arithmetic_functions", "table not found"))
    # exception mapping of compute_function
    cf = [st for st in tree.body if isinstance(st, ast.FunctionDef) and st.name == "compute_function"]
    if len(cf) != 1:
        res.failed.append(("compute_function", "not found"))
    else:
        tries = [n for n in ast.walk(cf[0]) if isinstance(n, ast.Try)]
        if len(tries) != 1 or tries[0].finalbody or tries[0].orelse:
            res.failed.append(("compute_function", "expected exactly one try/except"))
        else:
            for h in tries[0].handlers:
                names = []
                if isinstance(h.type, ast.Name):
                    names = [h.type.id]
                elif isinstance(h.type, ast.Tuple) and all(isinstance(x, ast.Name) for x in h.type.elts):
                    names = [x.id for x in h.type.elts]
                ok = (names and len(h.body) == 1 and isinstance(h.body[0], ast.Raise) and isinstance(h.body[0].exc, ast.Call)
                      and isinstance(h.body[0].exc.func, ast.Name) and h.body[0].exc.func.id == "ArithmeticError")
                if not ok:
                    res.failed.append(("compute_function", "handler %s" % ast.unparse(h)[:100]))
                else:
                    res.mapped_errors += names
    res.text = render(res)
    return res


def render(res):
    out = ["""import ProbLogModel.PyNum
/-!
# GENERATED by harness/py2lean_arith from problog/logic.py (`_arithmetic_functions`, `compute_function`) — do not edit.

Regenerated from the current source on every run of `./check C16`; rewritten only when the content changes.
-/
namespace ProbLogModel.Generated.ArithTable
open ProbLogModel.PyNum
"""]
    fns = res.keys("fn")
    for key in fns:
        _, lname, params, body, src = res.entries[key]
        out.append("/-- `(%s, %d): %s` -/" % (lean_str(key[0]).replace("-/", "- /"), key[1], src.replace("-/", "- /")))
        sig = (" (%s : PyNum)" % " ".join(params)) if params else ""
        out.append("def %s%s : PyRes := do\n%s\n" % (lname, sig, body))
    out.append("/-- Table lookup + application for the translated entries (`none`: no translated entry). -/")
    out.append("def evalKey (name : String) (args : List PyNum) : Option PyRes :=\n  match name, args with")
    for key in fns:
        _, lname, params, body, src = res.entries[key]
        vs = ["x%d" % i for i in range(len(params))]
        out.append("  | %s, [%s] => some (%s%s)" % (lean_str(key[0]), ", ".join(vs), lname, "".join(" " + v for v in vs)))
    out.append("  | _, _ => none\n")

    def keylist(kind):
        return "[" + ", ".join("(%s, %d)" % (lean_str(k[0]), k[1]) for k in res.keys(kind)) + "]"
    out.append("def translatedKeys : List (String × Nat) := %s\n" % keylist("fn"))
    out.append("/-- entries taken from Python's `math` module: recorded by name only (trusted libm) -/")
    out.append("def mathKeys : List (String × Nat × String) := [%s]\n" % ", ".join(
        "(%s, %d, %s)" % (lean_str(k[0]), k[1], lean_str("math." + res.entries[k][1])) for k in res.keys("math")))
    out.append("/-- zero-argument entries naming a constant: recorded by name only -/")
    out.append("def constKeys : List (String × Nat) := %s\n" % keylist("const"))
    out.append("/-- Python exception classes that `compute_function` turns into `ArithmeticError` -/")
    out.append("def mappedErrors : List String := [%s]\n" % ", ".join(lean_str(x) for x in res.mapped_errors))
    out.append("end ProbLogModel.Generated.ArithTable\n")
    return "\n".join(out)


def regenerate(repo, lean_dir):
    """Translate <repo>/problog/logic.py and (re)write Generated/ArithTable.lean when its content changes.

    Returns (Result, path, changed)."""
    src = open(os.path.join(repo, "problog", "logic.py"), encoding="utf-8").read()
    res = translate_source(src)
    path = os.path.join(lean_dir, "ProbLogModel", "Generated", "ArithTable.lean")
    old = open(path, encoding="utf-8").read() if os.path.exists(path) else None
    changed = old != res.text
    if changed:
        os.makedirs(os.path.dirname(path), exist_ok=True)
        tmp = path + ".tmp%d" % os.getpid()
        with open(tmp, "w", encoding="utf-8") as f:
            f.write(res.text)
        os.replace(tmp, path)
    return res, path, changed
